#!/bin/bash
# usage: mutcheck.sh <mutation dir> <property> [only-regex] [tier]
# applies the patch to /repo, runs the check, reverts; prints DETECTED / MISSED
d=$1; pid=$2; only=$3; tier=${4:-quick}
cd /repo || exit 3
git diff --quiet || { echo "repo dirty"; exit 3; }
git apply "$d/patch.diff" || { echo "patch does not apply"; exit 3; }
cd /verif
if [ -n "$only" ]; then ./check $pid --tier $tier --only "$only" --no-evidence > /tmp/mutcheck-$$.log 2>&1; else ./check $pid --tier $tier --no-evidence > /tmp/mutcheck-$$.log 2>&1; fi
rc=$?
git -C /repo checkout -- .
grep -E "VIOLATION|KNOWN|PROBLEM|INCONCLUSIVE|done:" /tmp/mutcheck-$$.log | cut -c1-220
if [ $rc -eq 1 ]; then echo "== $(basename $d): DETECTED"; else echo "== $(basename $d): MISSED (rc=$rc)"; fi
rm -f /tmp/mutcheck-$$.log
