#!/bin/bash
# usage: mutcheck.sh <mutation dir> <property> [only-regex] [tier]
# applies the patch in a scratch worktree of /repo (never /repo itself), runs the check against it with
# GV_REPO, removes the worktree; prints DETECTED / MISSED
d=$1; pid=$2; only=$3; tier=${4:-quick}
wt=/tmp/wt-mut-$(basename $d)-$$
git -C /repo worktree add -q --detach $wt HEAD || exit 3
git -C $wt apply "$d/patch.diff" || { echo "patch does not apply"; git -C /repo worktree remove --force $wt; exit 3; }
cd /verif
log=/tmp/mutcheck-$$.log
if [ -n "$only" ]; then GV_REPO=$wt ./check $pid --tier $tier --only "$only" --no-evidence > $log 2>&1; else GV_REPO=$wt ./check $pid --tier $tier --no-evidence > $log 2>&1; fi
rc=$?
grep -E "VIOLATION|KNOWN|PROBLEM|INCONCLUSIVE|done:" $log | cut -c1-220
if [ $rc -eq 1 ]; then echo "== $(basename $d): DETECTED"; else echo "== $(basename $d): MISSED (rc=$rc)"; fi
rm -f $log
git -C /repo worktree remove --force $wt
h=$(echo -n $wt | sha1sum | cut -c1-8); rm -rf /verif/.target/alt-$h
