#!/bin/bash
# usage: confirm_mut.sh <mutation dir>...   -- independently confirms each seeded change in a scratch worktree:
#   with the patch: existing suite passes, demo fails; without: demo passes.  Writes <dir>/confirm.json
WT=/tmp/wt-confirm-$$
git -C /repo worktree add -q --detach $WT HEAD || exit 3
export CARGO_NET_OFFLINE=true CARGO_TARGET_DIR=/tmp/wt-confirm-target-$$ CARGO_BUILD_JOBS=6
for d in "$@"; do
  id=$(basename $d); t=demo_$(echo $id | tr 'A-Z-' 'a-z_')
  cd $WT; git checkout -q -- . ; rm -f tests/demo_*.rs
  ok_apply=false; suite=fail; demo_with=unknown; demo_without=unknown
  if git apply $d/patch.diff; then ok_apply=true; fi
  if cargo test --workspace --no-fail-fast --offline > /tmp/confirm-suite.log 2>&1; then suite=pass; fi
  cp $d/demo.rs tests/$t.rs
  if cargo test --offline --test $t > /tmp/confirm-demo1.log 2>&1; then demo_with=pass; else demo_with=fail; fi
  git checkout -q -- src
  if cargo test --offline --test $t > /tmp/confirm-demo2.log 2>&1; then demo_without=pass; else demo_without=fail; fi
  rm -f tests/$t.rs
  echo "{\"id\": \"$id\", \"applies\": $ok_apply, \"suite_with_patch\": \"$suite\", \"demo_with_patch\": \"$demo_with\", \"demo_without_patch\": \"$demo_without\", \"repo_head\": \"$(git -C /repo rev-parse --short HEAD)\"}" > $d/confirm.json
  cat $d/confirm.json
done
cd /; git -C /repo worktree remove --force $WT; rm -rf /tmp/wt-confirm-target-$$
