#!/bin/bash
# run the quick tier of the given properties sequentially (evidence is rewritten by each)
for p in "$@"; do
  GV_JOBS=${GV_JOBS:-8} ./check $p --tier ${TIER:-quick} > /tmp/runall-$p.log 2>&1
  echo "$p rc=$? $(tail -1 /tmp/runall-$p.log)"
done
