//! C03 — every attribute form decodes to its DWARF value; skipping equals reading.
//! One harness per form (generated in gen/c03_gen.rs), driven through the public `EntriesRaw` API.
use crate::c07::any_encoding;
use crate::mattr::*;
use crate::util::*;
use gimli::*;

fn uleb_bytes(v: u16, out: &mut [u8]) -> usize {
    if v < 0x80 {
        out[0] = v as u8;
        1
    } else if v < 0x4000 {
        out[0] = (v & 0x7f) as u8 | 0x80;
        out[1] = (v >> 7) as u8;
        2
    } else {
        out[0] = (v & 0x7f) as u8 | 0x80;
        out[1] = ((v >> 7) & 0x7f) as u8 | 0x80;
        out[2] = (v >> 14) as u8;
        3
    }
}

/// `form`: the form under test; `indirect`: how many DW_FORM_indirect wrappers precede it (0, 1 or 2).
/// Stamped out once per reader kind: the real `EndianSlice` (any LEB length) and `FixLeb<K>` (LEB operands
/// of exactly K bytes; positions stay concrete, so queries are ~10x cheaper).
macro_rules! def_check_form {
    ($fname:ident, $mk:expr) => {
        pub fn $fname(form: u16, indirect: u32, twin: bool) {
            const N: usize = 24;
            let mut buf: [u8; N] = kani::any();
            let mut p = 0;
            let mut i = 0;
            while i < indirect {
                // inner indirections are encoded in the data: [uleb(0x16)]* uleb(form)
                let f = if i + 1 < indirect { 0x16 } else { form };
                p += uleb_bytes(f, &mut buf[p..]);
                i += 1;
            }
            let spec_form = if indirect > 0 { 0x16 } else { form };
            let name: u16 = kani::any();
            let implicit: Option<i64> = if spec_form == 0x21 { Some(kani::any()) } else { None };
            let spec = AttributeSpecification::new(DwAt(name), DwForm(spec_form), implicit);
            let e = any_endian();
            let enc = any_encoding();
            let abbrevs = Abbreviations::default();
            let mk = $mk;

            let mut raw = EntriesRaw::new(mk(&buf[..], e), enc, &abbrevs, UnitOffset(0));
            let got = raw.read_attribute(spec);
            let want = model_attr(&buf[..], e, enc, name, spec_form, implicit, 2);

            let mut sk = EntriesRaw::new(mk(&buf[..], e), enc, &abbrevs, UnitOffset(0));
            let skipped = sk.skip_attributes(&[spec]);

            match (&got, &want) {
                (Ok(a), Some((w, n))) => {
                    assert!(a.name() == DwAt(name) && a.form() == DwForm(spec_form));
                    let r = a.raw_value();
                    assert!(tag(&r) == tag(w) && payload(&r) == payload(w), "decoded value differs from the standard's");
                    assert!(raw.next_offset().0 == *n, "bytes consumed by reading");
                    // skipping == reading
                    assert!(skipped.is_ok(), "skip fails where read succeeds");
                    assert!(sk.next_offset().0 == *n, "bytes consumed by skipping");
                    // advertised fixed size
                    let header = UnitHeader::new(enc, 0, UnitType::Compilation, DebugAbbrevOffset(0), SectionId::DebugInfo,
                                                 UnitSectionOffset(0), mk(&buf[..0], e));
                    let adv = spec.size(&header);
                    assert!(adv == if indirect > 0 { None } else { model_fixed_size(form, enc) }, "advertised size");
                    if let Some(s) = adv {
                        assert!(s == *n);
                    }
                    if twin {
                        assert!(*n == N + 1, "twin");
                    }
                }
                (Err(_), None) => {
                    // (skipping a malformed value may succeed: skip does not validate LEB128 ranges)
                    if twin {
                        assert!(false, "twin");
                    }
                }
                (Ok(_), None) => assert!(false, "accepted a form/value the standard rejects"),
                (Err(_), Some(_)) => assert!(false, "rejected a well-formed attribute"),
            }
            kani::cover!(true);
        }
    };
}
def_check_form!(check_form, |b, e| EndianSlice::new(b, e));
def_check_form!(check_form_k1, |b, e| FixLeb::<RunTimeEndian, 1>::new(b, e));
def_check_form!(check_form_k2, |b, e| FixLeb::<RunTimeEndian, 2>::new(b, e));
