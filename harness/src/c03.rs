//! C03 — every attribute form decodes to its DWARF value; skipping equals reading.
//! One harness per form (generated in gen/c03_gen.rs), driven through the public `EntriesRaw` API.
use crate::c07::any_encoding;
use crate::mattr::*;
use crate::util::*;
use gimli::*;

fn uleb_bytes(v: u16, out: &mut [u8]) -> usize {
    if v < 0x80 {
        out[0] = v as u8;
        1
    } else if v < 0x4000 {
        out[0] = (v & 0x7f) as u8 | 0x80;
        out[1] = (v >> 7) as u8;
        2
    } else {
        out[0] = (v & 0x7f) as u8 | 0x80;
        out[1] = ((v >> 7) & 0x7f) as u8 | 0x80;
        out[2] = (v >> 14) as u8;
        3
    }
}

/// `form`: the form under test; `indirect`: how many DW_FORM_indirect wrappers precede it (0, 1 or 2).
/// Stamped out once per reader kind: the real `EndianSlice` (any LEB length) and `FixLeb<K>` (LEB operands
/// of exactly K bytes; positions stay concrete, so queries are ~10x cheaper).
macro_rules! def_check_form {
    ($fname:ident, $mk:expr) => {
        pub fn $fname(form: u16, indirect: u32, twin: bool) {
            const N: usize = 24;
            let mut buf: [u8; N] = kani::any();
            let mut p = 0;
            let mut i = 0;
            while i < indirect {
                // inner indirections are encoded in the data: [uleb(0x16)]* uleb(form)
                let f = if i + 1 < indirect { 0x16 } else { form };
                p += uleb_bytes(f, &mut buf[p..]);
                i += 1;
            }
            let spec_form = if indirect > 0 { 0x16 } else { form };
            let name: u16 = kani::any();
            let implicit: Option<i64> = if spec_form == 0x21 { Some(kani::any()) } else { None };
            let spec = AttributeSpecification::new(DwAt(name), DwForm(spec_form), implicit);
            let e = any_endian();
            let enc = any_encoding();
            let abbrevs = Abbreviations::default();
            let mk = $mk;

            let mut raw = EntriesRaw::new(mk(&buf[..], e), enc, &abbrevs, UnitOffset(0));
            let got = raw.read_attribute(spec);
            let want = model_attr(&buf[..], e, enc, name, spec_form, implicit, 2);

            let mut sk = EntriesRaw::new(mk(&buf[..], e), enc, &abbrevs, UnitOffset(0));
            let skipped = sk.skip_attributes(&[spec]);

            match (&got, &want) {
                (Ok(a), Some((w, n))) => {
                    assert!(a.name() == DwAt(name) && a.form() == DwForm(spec_form));
                    let r = a.raw_value();
                    assert!(tag(&r) == tag(w) && payload(&r) == payload(w), "decoded value differs from the standard's");
                    assert!(raw.next_offset().0 == *n, "bytes consumed by reading");
                    // skipping == reading
                    assert!(skipped.is_ok(), "skip fails where read succeeds");
                    assert!(sk.next_offset().0 == *n, "bytes consumed by skipping");
                    // advertised fixed size
                    let header = UnitHeader::new(enc, 0, UnitType::Compilation, DebugAbbrevOffset(0), SectionId::DebugInfo,
                                                 UnitSectionOffset(0), mk(&buf[..0], e));
                    let adv = spec.size(&header);
                    assert!(adv == if indirect > 0 { None } else { model_fixed_size(form, enc) }, "advertised size");
                    if let Some(s) = adv {
                        assert!(s == *n);
                    }
                    if twin {
                        assert!(*n == N + 1, "twin");
                    }
                }
                (Err(_), None) => {
                    // (skipping a malformed value may succeed: skip does not validate LEB128 ranges)
                    if twin {
                        assert!(false, "twin");
                    }
                }
                (Ok(_), None) => assert!(false, "accepted a form/value the standard rejects"),
                (Err(_), Some(_)) => assert!(false, "rejected a well-formed attribute"),
            }
            kani::cover!(true);
        }
    };
}
def_check_form!(check_form, |b, e| EndianSlice::new(b, e));
def_check_form!(check_form_k1, |b, e| FixLeb::<RunTimeEndian, 1>::new(b, e));
def_check_form!(check_form_k2, |b, e| FixLeb::<RunTimeEndian, 2>::new(b, e));

/// Name-based normalisation (`Attribute::value`) never changes the numeric payload or target:
/// for one concrete attribute name, every representative raw class (one form per class, payload symbolic).
fn norm_one(name: u16, form: u16, twin: bool) {
    // encoding and byte order are concrete here: normalisation depends on neither (the legacy data4/data8
    // rule is part of the decode harnesses)
    let e = LittleEndian;
    let enc = Encoding { format: Format::Dwarf32, version: 4, address_size: 8 };
    let abbrevs = Abbreviations::default();
    let mut buf: [u8; 12] = kani::any();
    // block lengths are concrete (3 bytes): a symbolic-length view costs 10x and normalisation never looks at it
    if form == 0x0a {
        buf[0] = 3;
    }
    if form == 0x18 {
        buf[0] = 0x83;
        buf[1] = 0;
    }
    let implicit: Option<i64> = if form == 0x21 { Some(kani::any()) } else { None };
    let spec = AttributeSpecification::new(DwAt(name), DwForm(form), implicit);
    let mut raw = EntriesRaw::new(FixLeb::<LittleEndian, 2>::new(&buf[..], e), enc, &abbrevs, UnitOffset(0));
    if let Ok(a) = raw.read_attribute(spec) {
        let r = a.raw_value();
        let n = a.value();
        assert!(payload_preserved(payload(&r), payload(&n)), "normalisation changed the payload");
        // helper views agree with the raw payload as well
        if let (Some(u), Payload::Num { bits, width }) = (a.udata_value(), payload(&r)) {
            assert!(u as u128 == bits);
        }
        if let Some(o) = a.offset_value() {
            assert!(payload(&r) == Payload::Num { bits: o as u128, width: 0 });
        }
        if twin {
            assert!(tag(&r) == tag(&n), "twin");
        }
    }
}

pub fn check_norm(name: u16, full: bool, twin: bool) {
    // literal form codes (a table lookup would make the form symbolic for the symbolic executor)
    norm_one(name, 0x01, twin);
    norm_one(name, 0x0a, twin);
    norm_one(name, 0x0b, twin);
    norm_one(name, 0x05, twin);
    norm_one(name, 0x06, twin);
    norm_one(name, 0x07, twin);
    norm_one(name, 0x0d, twin);
    norm_one(name, 0x0f, twin);
    norm_one(name, 0x18, twin);
    norm_one(name, 0x0c, twin);
    norm_one(name, 0x17, twin);
    norm_one(name, 0x13, twin);
    norm_one(name, 0x10, twin);
    norm_one(name, 0x0e, twin);
    norm_one(name, 0x21, twin);
    if full {
        // index forms pass through normalisation untouched and are 6x dearer to execute symbolically
        norm_one(name, 0x1a, twin);
        norm_one(name, 0x1b, twin);
        norm_one(name, 0x22, twin);
        norm_one(name, 0x23, twin);
    }
    kani::cover!(true);
}

