//! Build probe used by `./check --setup`.
use gimli::{EndianSlice, LittleEndian, Reader};
#[kani::proof]
fn c00_setup_probe() {
    let b: [u8; 2] = kani::any();
    let mut r = EndianSlice::new(&b, LittleEndian);
    assert!(r.read_u8() == Ok(b[0]));
}
