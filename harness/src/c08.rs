//! C08 — range and location lists resolve to the standard's address ranges.
//! (a) one-step resolution (`convert_raw`, public) of every entry kind from an arbitrary base address, with
//!     symbolic operands, address size, .debug_addr contents and base; plus the any-input clause
//!     (every yielded range is non-empty and below the tombstone addresses).
//! (b) raw decoding of every DW_RLE_* / DW_LLE_* kind and the legacy pair format.
use crate::c04::any_addr_size;
use crate::mattr::RawView;
use crate::mline::addr_max;
use crate::util::*;
use gimli::*;

type R<'a> = EndianSlice<'a, LittleEndian>;

fn wrap(x: u128, asz: u8) -> u64 {
    (x & addr_max(asz) as u128) as u64
}

/// address `index` of the table at `base` in `.debug_addr` (None = outside the section)
fn table_addr(tbl: &[u8], base: usize, index: usize, asz: u8) -> Option<u64> {
    let off = (base as u128) + (index as u128) * (asz as u128);
    if off + asz as u128 > tbl.len() as u128 {
        return None;
    }
    Some(ref_uint(&tbl[off as usize..], asz as usize, false) as u64)
}

/// What the standard (DWARF 5 §2.17.3 / §7.25) defines for one entry, given the current base address.
/// Ok(Some(range)) = yields a range; Ok(None) = yields nothing (base selection, or an empty / tombstone range that
/// gimli documents as skipped); Err = indexed address outside .debug_addr.
#[derive(Clone, Copy)]
enum ME {
    BaseAddress(u64),
    BaseAddressx(usize),
    StartxEndx(usize, usize),
    StartxLength(usize, u64),
    OffsetPair(u64, u64),
    StartEnd(u64, u64),
    StartLength(u64, u64),
    Default,
}

fn resolve(e: ME, base: &mut u64, tbl: &[u8], tbase: usize, asz: u8) -> core::result::Result<Option<(u64, u64)>, ()> {
    let tomb = addr_max(asz) - 1;
    let r = match e {
        ME::BaseAddress(a) => {
            *base = a;
            return Ok(None);
        }
        ME::BaseAddressx(i) => {
            *base = table_addr(tbl, tbase, i, asz).ok_or(())?;
            return Ok(None);
        }
        ME::StartxEndx(i, j) => (table_addr(tbl, tbase, i, asz).ok_or(())?, table_addr(tbl, tbase, j, asz).ok_or(())?),
        ME::StartxLength(i, l) => {
            let b = table_addr(tbl, tbase, i, asz).ok_or(())?;
            (b, wrap(b as u128 + l as u128, asz))
        }
        ME::OffsetPair(b, e) => {
            if *base >= tomb {
                return Ok(None);
            }
            (wrap(*base as u128 + b as u128, asz), wrap(*base as u128 + e as u128, asz))
        }
        ME::StartEnd(b, e) => (b, e),
        ME::StartLength(b, l) => (b, wrap(b as u128 + l as u128, asz)),
        ME::Default => (0, u64::MAX),
    };
    if r.0 >= tomb || r.0 >= r.1 {
        return Ok(None);
    }
    Ok(Some(r))
}

fn any_me(k: u8) -> (ME, RawRngListEntry<usize>) {
    let (a, b): (u64, u64) = (kani::any(), kani::any());
    match k {
        0 => (ME::BaseAddress(a), RawRngListEntry::BaseAddress { addr: a }),
        1 => (ME::BaseAddressx(a as usize), RawRngListEntry::BaseAddressx { addr: DebugAddrIndex(a as usize) }),
        2 => (ME::StartxEndx(a as usize, b as usize), RawRngListEntry::StartxEndx { begin: DebugAddrIndex(a as usize), end: DebugAddrIndex(b as usize) }),
        3 => (ME::StartxLength(a as usize, b), RawRngListEntry::StartxLength { begin: DebugAddrIndex(a as usize), length: b }),
        4 => (ME::OffsetPair(a, b), RawRngListEntry::OffsetPair { begin: a, end: b }),
        5 => (ME::StartEnd(a, b), RawRngListEntry::StartEnd { begin: a, end: b }),
        6 => (ME::StartLength(a, b), RawRngListEntry::StartLength { begin: a, length: b }),
        _ => (ME::OffsetPair(a, b), RawRngListEntry::AddressOrOffsetPair { begin: a, end: b }),
    }
}

fn rng_step(kind: u8, twin: bool) {
    let asz = any_addr_size();
    let enc = Encoding { format: Format::Dwarf32, version: 5, address_size: asz };
    let tbl: [u8; 16] = kani::any();
    let tbase: usize = kani::any();
    let base0: u64 = kani::any();
    let e = LittleEndian;
    let lists = RangeLists::new(DebugRanges::new(&[], e), DebugRngLists::new(&[], e));
    let debug_addr = DebugAddr::from(EndianSlice::new(&tbl[..], e));
    let mut it = lists.ranges(RangeListsOffset(0), enc, base0, &debug_addr, DebugAddrBase(tbase)).unwrap();
    let (me, raw) = any_me(kind);
    let mut base = base0;
    let want = resolve(me, &mut base, &tbl[..], tbase, asz);
    let got = it.convert_raw(raw);
    match (got, want) {
        (Ok(Some(r)), Ok(Some((b, e)))) => {
            assert!(r.begin == b && r.end == e, "resolved range");
            // any-input clause
            assert!(r.begin < r.end && r.begin < addr_max(asz) - 1);
            if twin {
                assert!(r.begin == 0x42, "twin");
            }
        }
        (Ok(None), Ok(None)) => {}
        (Err(_), Err(())) => {}
        _ => assert!(false, "yield / skip / error disagreement"),
    }
    // the base address in force afterwards: observe it through an offset pair (0, 1)
    if got.is_ok() {
        let probe = it.convert_raw(RawRngListEntry::OffsetPair { begin: 0, end: 1 });
        let mut b2 = base;
        let w2 = resolve(ME::OffsetPair(0, 1), &mut b2, &tbl[..], tbase, asz);
        match (probe, w2) {
            (Ok(Some(r)), Ok(Some((b, e)))) => assert!(r.begin == b && r.end == e, "base address after the entry"),
            (Ok(None), Ok(None)) => {}
            _ => assert!(false, "base address after the entry"),
        }
    }
    kani::cover!(matches!(got, Ok(Some(_))) || kind <= 1);
}

macro_rules! rng_steps {
    ($($name:ident: $k:expr, $twin:expr;)*) => { $(
        #[kani::proof]
        #[kani::unwind(10)]
        fn $name() { rng_step($k, $twin) }
    )* };
}
rng_steps!(
    c08_q_rng_step_base_address: 0, false; c08_q_rng_step_base_addressx: 1, false; c08_q_rng_step_startx_endx: 2, false;
    c08_q_rng_step_startx_length: 3, false; c08_q_rng_step_offset_pair: 4, false; c08_q_rng_step_start_end: 5, false;
    c08_q_rng_step_start_length: 6, false; c08_q_rng_step_legacy_pair: 7, false; c08_q_rng_step_start_length_twin: 6, true;
);

// ---- location lists: same resolution, data carried through unchanged ----
fn loc_step(kind: u8) {
    let asz = any_addr_size();
    let enc = Encoding { format: Format::Dwarf32, version: 5, address_size: asz };
    let tbl: [u8; 16] = kani::any();
    let tbase: usize = kani::any();
    let base0: u64 = kani::any();
    let e = LittleEndian;
    let expr: [u8; 3] = kani::any();
    let data = Expression(EndianSlice::new(&expr[..], e));
    let lists = LocationLists::new(DebugLoc::new(&[], e), DebugLocLists::new(&[], e));
    let debug_addr = DebugAddr::from(EndianSlice::new(&tbl[..], e));
    let mut it = lists.locations(LocationListsOffset(0), enc, base0, &debug_addr, DebugAddrBase(tbase)).unwrap();
    let (a, b): (u64, u64) = (kani::any(), kani::any());
    let (me, raw) = match kind {
        0 => (ME::BaseAddress(a), RawLocListEntry::BaseAddress { addr: a }),
        1 => (ME::BaseAddressx(a as usize), RawLocListEntry::BaseAddressx { addr: DebugAddrIndex(a as usize) }),
        2 => (ME::StartxEndx(a as usize, b as usize), RawLocListEntry::StartxEndx { begin: DebugAddrIndex(a as usize), end: DebugAddrIndex(b as usize), data }),
        3 => (ME::StartxLength(a as usize, b), RawLocListEntry::StartxLength { begin: DebugAddrIndex(a as usize), length: b, data }),
        4 => (ME::OffsetPair(a, b), RawLocListEntry::OffsetPair { begin: a, end: b, data }),
        5 => (ME::StartEnd(a, b), RawLocListEntry::StartEnd { begin: a, end: b, data }),
        6 => (ME::StartLength(a, b), RawLocListEntry::StartLength { begin: a, length: b, data }),
        7 => (ME::Default, RawLocListEntry::DefaultLocation { data }),
        _ => (ME::OffsetPair(a, b), RawLocListEntry::AddressOrOffsetPair { begin: a, end: b, data }),
    };
    let mut base = base0;
    let want = resolve(me, &mut base, &tbl[..], tbase, asz);
    let got = it.convert_raw(raw);
    match (got, want) {
        (Ok(Some(r)), Ok(Some((b, e)))) => {
            assert!(r.range.begin == b && r.range.end == e, "resolved range");
            assert!(r.range.begin < r.range.end && r.range.begin < addr_max(asz) - 1);
            assert!(r.data.0.view_of() == data.0.view_of(), "location expression is the same view");
        }
        (Ok(None), Ok(None)) => {}
        (Err(_), Err(())) => {}
        _ => assert!(false, "yield / skip / error disagreement"),
    }
    kani::cover!(matches!(got, Ok(Some(_))) || kind <= 1);
}
macro_rules! loc_steps {
    ($($name:ident: $k:expr;)*) => { $(
        #[kani::proof]
        #[kani::unwind(10)]
        fn $name() { loc_step($k) }
    )* };
}
loc_steps!(
    c08_q_loc_step_base_address: 0; c08_q_loc_step_base_addressx: 1; c08_q_loc_step_startx_endx: 2; c08_q_loc_step_startx_length: 3;
    c08_q_loc_step_offset_pair: 4; c08_q_loc_step_start_end: 5; c08_q_loc_step_start_length: 6; c08_q_loc_step_default: 7;
    c08_q_loc_step_legacy_pair: 8;
);

// ------------------------------------------------------------------------------------------------
// (b) raw decoding: one entry of a concrete kind at the head of the section, operands symbolic, followed by
//     end_of_list; `raw_ranges` / `raw_locations(_dwo)` must expose exactly the encoded entry and its length.
// ------------------------------------------------------------------------------------------------
use crate::mop::Cur;

macro_rules! def_rle_raw {
    ($fname:ident, $k:expr) => {
        fn $fname(kind: u8) {
            let mut buf: [u8; 20] = kani::any();
            buf[0] = kind;
            let asz = any_addr_size();
            let enc = Encoding { format: Format::Dwarf32, version: 5, address_size: asz };
            let e = LittleEndian;
            let lists = RangeLists::new(DebugRanges::from(FixLeb::<LittleEndian, $k>::new(&[], e)), DebugRngLists::from(FixLeb::<LittleEndian, $k>::new(&buf[..], e)));
            let mut it = lists.raw_ranges(RangeListsOffset(0), enc).unwrap();
            let got = it.next();
            kani::cover!(got.is_ok() || kind > 7);
            let mut c = Cur { buf: &buf[..], pos: 1, big: false };
            let want_none;
            match kind {
                0 => {
                    assert!(matches!(got, Ok(None)));
                    assert!(matches!(it.next(), Ok(None)));
                    return;
                }
                1 => {
                    let w = c.uleb();
                    want_none = w.is_none();
                    if let Some(i) = w {
                        assert!(matches!(got, Ok(Some(RawRngListEntry::BaseAddressx { addr })) if addr.0 == i as usize));
                    }
                }
                2 => {
                    let w = (|| Some((c.uleb()?, c.uleb()?)))();
                    want_none = w.is_none();
                    if let Some((b, x)) = w {
                        assert!(matches!(got, Ok(Some(RawRngListEntry::StartxEndx { begin, end })) if begin.0 == b as usize && end.0 == x as usize));
                    }
                }
                3 => {
                    let w = (|| Some((c.uleb()?, c.uleb()?)))();
                    want_none = w.is_none();
                    if let Some((b, x)) = w {
                        assert!(matches!(got, Ok(Some(RawRngListEntry::StartxLength { begin, length })) if begin.0 == b as usize && length == x));
                    }
                }
                4 => {
                    let w = (|| Some((c.uleb()?, c.uleb()?)))();
                    want_none = w.is_none();
                    if let Some((b, x)) = w {
                        assert!(matches!(got, Ok(Some(RawRngListEntry::OffsetPair { begin, end })) if begin == b && end == x));
                    }
                }
                5 => {
                    let w = c.addr(asz);
                    want_none = w.is_none();
                    if let Some(a) = w {
                        assert!(matches!(got, Ok(Some(RawRngListEntry::BaseAddress { addr })) if addr == a));
                    }
                }
                6 => {
                    let w = (|| Some((c.addr(asz)?, c.addr(asz)?)))();
                    want_none = w.is_none();
                    if let Some((b, x)) = w {
                        assert!(matches!(got, Ok(Some(RawRngListEntry::StartEnd { begin, end })) if begin == b && end == x));
                    }
                }
                7 => {
                    let w = (|| Some((c.addr(asz)?, c.uleb()?)))();
                    want_none = w.is_none();
                    if let Some((b, x)) = w {
                        assert!(matches!(got, Ok(Some(RawRngListEntry::StartLength { begin, length })) if begin == b && length == x));
                    }
                }
                _ => want_none = true,
            }
            if want_none {
                assert!(got.is_err(), "malformed entry accepted");
                // (a second dispatch at a symbolic position is beyond the solver; "nothing after an error" is checked on
                // the unknown-kind lanes, where the failure is unconditional)
                if kind > 7 {
                    assert!(matches!(it.next(), Ok(None)), "iterator yields nothing after an error");
                }
            }
        }
    };
}
def_rle_raw!(rle_raw_k1, 1);
def_rle_raw!(rle_raw_k2, 2);
macro_rules! rle_raws {
    ($($name:ident: $f:ident, $k:expr;)*) => { $(
        #[kani::proof]
        #[kani::unwind(22)]
        fn $name() { $f($k) }
    )* };
}
rle_raws!(c08_q_rle_raw_0: rle_raw_k1, 0; c08_q_rle_raw_1: rle_raw_k1, 1; c08_q_rle_raw_2: rle_raw_k1, 2; c08_q_rle_raw_3: rle_raw_k2, 3;
          c08_q_rle_raw_4: rle_raw_k2, 4; c08_q_rle_raw_5: rle_raw_k1, 5; c08_q_rle_raw_6: rle_raw_k1, 6; c08_q_rle_raw_7: rle_raw_k2, 7;
          c08_q_rle_raw_8: rle_raw_k1, 8; c08_t_rle_raw_ff: rle_raw_k1, 0xff; c08_t_rle_raw_2_k2: rle_raw_k2, 2; c08_t_rle_raw_4_k1: rle_raw_k1, 4;);

/// pre-v5 `.debug_ranges`: pairs of addresses; (0,0) terminates, (max, x) selects base x
#[kani::proof]
#[kani::unwind(10)]
fn c08_q_ranges_legacy_raw() {
    let buf: [u8; 32] = kani::any();
    let asz = any_addr_size();
    let enc = Encoding { format: Format::Dwarf32, version: 4, address_size: asz };
    let e = LittleEndian;
    let lists = RangeLists::new(DebugRanges::new(&buf[..], e), DebugRngLists::new(&[], e));
    let mut it = lists.raw_ranges(RangeListsOffset(0), enc).unwrap();
    let got = it.next();
    let n = asz as usize;
    let b = ref_uint(&buf[..], n, false) as u64;
    let x = ref_uint(&buf[n..], n, false) as u64;
    match got {
        Ok(None) => assert!(b == 0 && x == 0),
        Ok(Some(RawRngListEntry::BaseAddress { addr })) => assert!(b == addr_max(asz) && addr == x),
        Ok(Some(RawRngListEntry::AddressOrOffsetPair { begin, end })) => assert!(begin == b && end == x && b != addr_max(asz) && !(b == 0 && x == 0)),
        _ => assert!(false, "unexpected legacy entry"),
    }
    // second pair follows immediately
    if let Ok(Some(_)) = got {
        let b2 = ref_uint(&buf[2 * n..], n, false) as u64;
        let x2 = ref_uint(&buf[3 * n..], n, false) as u64;
        match it.next() {
            Ok(None) => assert!(b2 == 0 && x2 == 0),
            Ok(Some(RawRngListEntry::BaseAddress { addr })) => assert!(b2 == addr_max(asz) && addr == x2),
            Ok(Some(RawRngListEntry::AddressOrOffsetPair { begin, end })) => assert!(begin == b2 && end == x2),
            _ => assert!(false, "unexpected second legacy entry"),
        }
    }
    kani::cover!(matches!(got, Ok(Some(RawRngListEntry::BaseAddress { .. }))));
}

/// DWARF 5 §7.29 Table 7.10 (location list entries) and the GNU split-DWARF v4 variant (u32 length, u16 block size)
macro_rules! def_lle_raw {
    ($fname:ident, $k:expr) => {
fn $fname(kind: u8, version: u16) {
    let mut buf: [u8; 24] = kani::any();
    buf[0] = kind;
    let asz = any_addr_size();
    let enc = Encoding { format: Format::Dwarf32, version, address_size: asz };
    let e = LittleEndian;
    let lists = if version >= 5 {
        LocationLists::new(DebugLoc::from(FixLeb::<LittleEndian, $k>::new(&[], e)), DebugLocLists::from(FixLeb::<LittleEndian, $k>::new(&buf[..], e)))
    } else {
        LocationLists::new(DebugLoc::from(FixLeb::<LittleEndian, $k>::new(&buf[..], e)), DebugLocLists::from(FixLeb::<LittleEndian, $k>::new(&[], e)))
    };
    let mut it = if version >= 5 {
        lists.raw_locations(LocationListsOffset(0), enc).unwrap()
    } else {
        lists.raw_locations_dwo(LocationListsOffset(0), enc).unwrap()
    };
    let got = it.next();
    kani::cover!(got.is_ok() || kind > 8);
    // reference decode
    let mut c = Cur { buf: &buf[..], pos: 1, big: false };
    let data = |c: &mut Cur| -> Option<(usize, usize)> {
        let len = if version >= 5 { c.uleb()? } else { c.u(2)? };
        c.block(len)
    };
    let view = |r: &Expression<FixLeb<LittleEndian, $k>>| r.0.view_of();
    let at = |p: (usize, usize)| (buf.as_ptr() as usize + p.0, p.1);
    let mut ok = true;
    let want_none;
    match kind {
        0 => {
            assert!(matches!(got, Ok(None)));
            return;
        }
        1 => {
            let i = c.uleb();
            want_none = i.is_none();
            if let Some(i) = i {
                assert!(matches!(got, Ok(Some(RawLocListEntry::BaseAddressx { addr })) if addr.0 == i as usize));
            }
        }
        2 => {
            let w = (|| Some((c.uleb()?, c.uleb()?, data(&mut c)?)))();
            want_none = w.is_none();
            if let Some((b, e2, d)) = w {
                assert!(matches!(&got, Ok(Some(RawLocListEntry::StartxEndx { begin, end, data })) if begin.0 == b as usize && end.0 == e2 as usize && view(data) == at(d)));
            }
        }
        3 => {
            let w = (|| {
                let b = c.uleb()?;
                let l = if version >= 5 { c.uleb()? } else { c.u(4)? };
                Some((b, l, data(&mut c)?))
            })();
            want_none = w.is_none();
            if let Some((b, l, d)) = w {
                assert!(matches!(&got, Ok(Some(RawLocListEntry::StartxLength { begin, length, data })) if begin.0 == b as usize && *length == l && view(data) == at(d)));
            }
        }
        4 => {
            let w = (|| Some((c.uleb()?, c.uleb()?, data(&mut c)?)))();
            want_none = w.is_none();
            if let Some((b, e2, d)) = w {
                assert!(matches!(&got, Ok(Some(RawLocListEntry::OffsetPair { begin, end, data })) if *begin == b && *end == e2 && view(data) == at(d)));
            }
        }
        5 => {
            let w = data(&mut c);
            want_none = w.is_none();
            if let Some(d) = w {
                assert!(matches!(&got, Ok(Some(RawLocListEntry::DefaultLocation { data })) if view(data) == at(d)));
            }
        }
        6 => {
            let w = c.addr(asz);
            want_none = w.is_none();
            if let Some(a) = w {
                assert!(matches!(got, Ok(Some(RawLocListEntry::BaseAddress { addr })) if addr == a));
            }
        }
        7 => {
            let w = (|| Some((c.addr(asz)?, c.addr(asz)?, data(&mut c)?)))();
            want_none = w.is_none();
            if let Some((b, e2, d)) = w {
                assert!(matches!(&got, Ok(Some(RawLocListEntry::StartEnd { begin, end, data })) if *begin == b && *end == e2 && view(data) == at(d)));
            }
        }
        8 => {
            let w = (|| Some((c.addr(asz)?, c.uleb()?, data(&mut c)?)))();
            want_none = w.is_none();
            if let Some((b, l, d)) = w {
                assert!(matches!(&got, Ok(Some(RawLocListEntry::StartLength { begin, length, data })) if *begin == b && *length == l && view(data) == at(d)));
            }
        }
        _ => want_none = true,
    }
    if want_none {
        assert!(got.is_err(), "malformed entry accepted");
        if kind > 8 {
            assert!(matches!(it.next(), Ok(None)), "iterator yields nothing after an error");
        }
    }
}
    };
}
def_lle_raw!(lle_raw_k1, 1);
def_lle_raw!(lle_raw_k2, 2);
macro_rules! lle_raws {
    ($($name:ident: $f:ident, $k:expr, $v:expr;)*) => { $(
        #[kani::proof]
        #[kani::unwind(26)]
        fn $name() { $f($k, $v) }
    )* };
}
lle_raws!(c08_q_lle_raw_0: lle_raw_k1, 0, 5; c08_q_lle_raw_1: lle_raw_k1, 1, 5; c08_q_lle_raw_2: lle_raw_k1, 2, 5; c08_q_lle_raw_3: lle_raw_k1, 3, 5;
          c08_q_lle_raw_4: lle_raw_k1, 4, 5; c08_q_lle_raw_5: lle_raw_k1, 5, 5; c08_q_lle_raw_6: lle_raw_k1, 6, 5; c08_q_lle_raw_7: lle_raw_k1, 7, 5;
          c08_q_lle_raw_8: lle_raw_k1, 8, 5; c08_q_lle_raw_9: lle_raw_k1, 9, 5; c08_q_lle_gnu_raw_2: lle_raw_k1, 2, 4; c08_q_lle_gnu_raw_3: lle_raw_k1, 3, 4;
          c08_q_lle_gnu_raw_4: lle_raw_k1, 4, 4; c08_t_lle_gnu_raw_1: lle_raw_k1, 1, 4; c08_t_lle_gnu_raw_7: lle_raw_k1, 7, 4;
          c08_t_lle_raw_4_k2: lle_raw_k2, 4, 5; c08_t_lle_raw_8_k2: lle_raw_k2, 8, 5;);

/// Default list bases: in a DWARF 5 `.dwo` the offset table starts right after the list header
/// (DWARF 5 §7.28/7.29: unit_length 4 or 12 bytes, version 2, address_size 1, segment_selector_size 1, offset_entry_count 4).
#[kani::proof]
fn c08_q_default_list_bases() {
    let enc = crate::c07::any_encoding();
    let dwo: bool = kani::any();
    let ft = if dwo { DwarfFileType::Dwo } else { DwarfFileType::Main };
    let want = if enc.version >= 5 && dwo { if enc.format == Format::Dwarf64 { 20 } else { 12 } } else { 0 };
    let r: DebugRngListsBase<usize> = DebugRngListsBase::default_for_encoding_and_file(enc, ft);
    let l: DebugLocListsBase<usize> = DebugLocListsBase::default_for_encoding_and_file(enc, ft);
    assert!(r.0 == want && l.0 == want);
    kani::cover!(want == 20);
}
