//! C10 — readers are faithful zero-copy views; all reader kinds behave identically.
//! Sequences of two reader operations (operation kind, arguments and buffer contents all symbolic) applied to five
//! reader kinds and to a cursor model; Kani's pointer checks cover the shared-buffer reader's unsafe code.
use crate::mattr::RawView;
use crate::util::*;
use gimli::*;
use std::rc::Rc;
use std::sync::Arc;

const N: usize = 8;

#[derive(Clone, Copy, PartialEq, Eq, Debug)]
pub struct Obs {
    ok: bool,
    val: u64,
    len: usize,
    off: usize,
    id_off: Option<usize>,
    piece_len: usize,
    piece_off: usize,
    first: u8,
}

#[derive(Clone, Copy, Debug, PartialEq, Eq)]
struct Ident;
impl Relocate<usize> for Ident {
    fn relocate_address(&self, _offset: usize, value: u64) -> gimli::Result<u64> {
        Ok(value)
    }
    fn relocate_offset(&self, _offset: usize, value: usize) -> gimli::Result<usize> {
        Ok(value)
    }
}

fn first_byte<R: Reader<Offset = usize>>(r: &R) -> u8 {
    match r.to_slice() {
        Ok(s) => {
            if s.len() > 0 {
                s[0]
            } else {
                0
            }
        }
        Err(_) => 0xee,
    }
}

/// apply one operation; `emptied` tracks whether offsets are still meaningful
fn apply<R: Reader<Offset = usize>>(r: &mut R, base: &R, op: u8, arg: usize, byte: u8, emptied: &mut bool) -> Obs {
    let mut o = Obs { ok: true, val: 0, len: 0, off: 0, id_off: None, piece_len: 0, piece_off: 0, first: 0 };
    match op {
        0 => match r.read_u8() {
            Ok(v) => o.val = v as u64,
            Err(_) => o.ok = false,
        },
        1 => match r.read_u16() {
            Ok(v) => o.val = v as u64,
            Err(_) => o.ok = false,
        },
        2 => match r.read_u32() {
            Ok(v) => o.val = v as u64,
            Err(_) => o.ok = false,
        },
        3 => match r.read_u64() {
            Ok(v) => o.val = v,
            Err(_) => o.ok = false,
        },
        4 => o.ok = r.skip(arg).is_ok(),
        5 => match r.split(arg) {
            Ok(p) => {
                o.piece_len = p.len();
                // (offsets of views taken from an emptied reader are not meaningful)
                o.piece_off = if *emptied { 0 } else { p.offset_from(base) };
                o.val = first_byte(&p) as u64;
            }
            Err(_) => o.ok = false,
        },
        6 => o.ok = r.truncate(arg).is_ok(),
        7 => {
            r.empty();
            *emptied = true;
        }
        8 => match r.find(byte) {
            Ok(i) => o.val = i as u64,
            Err(_) => o.ok = false,
        },
        9 => match r.read_null_terminated_slice() {
            Ok(p) => {
                o.piece_len = p.len();
                o.piece_off = if *emptied { 0 } else { p.offset_from(base) };
            }
            Err(_) => o.ok = false,
        },
        10 => {
            // a clone continues independently and dropping it changes nothing
            let mut c = r.clone();
            let _ = c.skip(arg);
            drop(c);
        }
        _ => {
            let mut b = [0u8; 3];
            match r.read_slice(&mut b) {
                Ok(()) => o.val = b[0] as u64 | (b[1] as u64) << 8 | (b[2] as u64) << 16,
                Err(_) => o.ok = false,
            }
        }
    }
    o.len = r.len();
    if !*emptied {
        o.off = r.offset_from(base);
        o.id_off = base.lookup_offset_id(r.offset_id());
        o.first = first_byte(r);
    }
    o
}

/// the cursor model
fn model(buf: &[u8; N], pos: &mut usize, end: &mut usize, op: u8, arg: usize, byte: u8, emptied: &mut bool) -> Obs {
    let mut o = Obs { ok: true, val: 0, len: 0, off: 0, id_off: None, piece_len: 0, piece_off: 0, first: 0 };
    let len = *end - *pos;
    let mut rd = |n: usize, pos: &mut usize, o: &mut Obs| {
        if len >= n {
            o.val = ref_uint(&buf[*pos..], n, false) as u64;
            *pos += n;
        } else {
            o.ok = false;
        }
    };
    match op {
        0 => rd(1, pos, &mut o),
        1 => rd(2, pos, &mut o),
        2 => rd(4, pos, &mut o),
        3 => rd(8, pos, &mut o),
        4 => {
            if arg <= len {
                *pos += arg;
            } else {
                o.ok = false;
            }
        }
        5 => {
            if arg <= len {
                o.piece_len = arg;
                o.piece_off = if *emptied { 0 } else { *pos };
                o.val = if arg > 0 { buf[*pos] as u64 } else { 0 };
                *pos += arg;
            } else {
                o.ok = false;
            }
        }
        6 => {
            if arg <= len {
                *end = *pos + arg;
            } else {
                o.ok = false;
            }
        }
        7 => {
            *end = *pos;
            *emptied = true;
        }
        8 | 9 => {
            let want = if op == 8 { byte } else { 0 };
            let mut i = *pos;
            let mut found = None;
            while i < *end {
                if buf[i] == want {
                    found = Some(i - *pos);
                    break;
                }
                i += 1;
            }
            match found {
                Some(k) => {
                    if op == 8 {
                        o.val = k as u64;
                    } else {
                        o.piece_len = k;
                        o.piece_off = if *emptied { 0 } else { *pos };
                        *pos += k + 1;
                    }
                }
                None => o.ok = false,
            }
        }
        10 => {}
        _ => rd(3, pos, &mut o),
    }
    o.len = *end - *pos;
    if !*emptied {
        o.off = *pos;
        o.id_off = Some(*pos);
        o.first = if *end > *pos { buf[*pos] } else { 0 };
    }
    o
}

fn two_ops<R: Reader<Offset = usize>>(section: R, buf: &[u8; N], ops: (u8, u8), args: (usize, usize), bytes: (u8, u8), twin: bool) {
    let mut r = section.clone();
    let (mut pos, mut end) = (0usize, N);
    let (mut e1, mut e2) = (false, false);
    let g1 = apply(&mut r, &section, ops.0, args.0, bytes.0, &mut e1);
    let m1 = model(buf, &mut pos, &mut end, ops.0, args.0, bytes.0, &mut e2);
    assert!(g1 == m1, "first operation differs from the cursor model");
    let mid = r.clone();
    let mid_pos = pos;
    let was_emptied = e1;
    let g2 = apply(&mut r, &section, ops.1, args.1, bytes.1, &mut e1);
    let m2 = model(buf, &mut pos, &mut end, ops.1, args.1, bytes.1, &mut e2);
    assert!(g2 == m2, "second operation differs from the cursor model");
    // offsets relative to a base that is itself inside the section
    if !e1 && !was_emptied {
        assert!(r.offset_from(&mid) == pos - mid_pos, "offset_from a base inside the section");
    }
    if twin {
        assert!(g2.len == 99, "twin");
    }
}

fn any_ops() -> ((u8, u8), (usize, usize), (u8, u8)) {
    let (a, b): (u8, u8) = (kani::any(), kani::any());
    kani::assume(a < 12 && b < 12);
    ((a, b), (kani::any(), kani::any()), (kani::any(), kani::any()))
}

#[kani::proof]
#[kani::unwind(10)]
fn c10_q_ops_endian_slice() {
    let buf: [u8; N] = kani::any();
    let (o, a, b) = any_ops();
    two_ops(EndianSlice::new(&buf[..], LittleEndian), &buf, o, a, b, false);
    kani::cover!(o.0 == 5 && o.1 == 9);
}
#[kani::proof]
#[kani::unwind(10)]
fn c10_q_ops_endian_slice_twin() {
    let buf: [u8; N] = kani::any();
    let (o, a, b) = any_ops();
    two_ops(EndianSlice::new(&buf[..], LittleEndian), &buf, o, a, b, true);
}
#[kani::proof]
#[kani::unwind(10)]
fn c10_q_ops_borrowed_endian_reader() {
    // EndianReader over a non-owning stable-deref buffer type (&[u8])
    let buf: [u8; N] = kani::any();
    let (o, a, b) = any_ops();
    two_ops(EndianReader::new(&buf[..], LittleEndian), &buf, o, a, b, false);
    kani::cover!(o.0 == 6 && o.1 == 3);
}
#[kani::proof]
#[kani::unwind(10)]
fn c10_q_ops_rc() {
    let buf: [u8; N] = kani::any();
    let (o, a, b) = any_ops();
    let rc: Rc<[u8]> = Rc::from(&buf[..]);
    two_ops(EndianRcSlice::new(rc, LittleEndian), &buf, o, a, b, false);
    kani::cover!(o.0 == 5 && o.1 == 10);
}
#[kani::proof]
#[kani::unwind(10)]
fn c10_q_ops_arc() {
    let buf: [u8; N] = kani::any();
    let (o, a, b) = any_ops();
    let rc: Arc<[u8]> = Arc::from(&buf[..]);
    two_ops(EndianArcSlice::new(rc, LittleEndian), &buf, o, a, b, false);
    kani::cover!(o.0 == 4 && o.1 == 7);
}
#[kani::proof]
#[kani::unwind(10)]
fn c10_q_ops_relocate_identity() {
    let buf: [u8; N] = kani::any();
    let (o, a, b) = any_ops();
    two_ops(RelocateReader::new(EndianSlice::new(&buf[..], LittleEndian), Ident), &buf, o, a, b, false);
    kani::cover!(o.0 == 4 && o.1 == 5);
}

// ---- shared-buffer reader: the inherent range methods keep the view inside the current view ----
#[kani::proof]
#[kani::unwind(10)]
fn c10_q_range_methods_in_bounds() {
    let buf: [u8; N] = kani::any();
    let rc: Rc<[u8]> = Rc::from(&buf[..]);
    let section = EndianRcSlice::new(rc, LittleEndian);
    let mut r = section.clone();
    let (s, t): (usize, usize) = (kani::any(), kani::any());
    kani::assume(s <= N && t <= N - s);
    r.skip(s).unwrap();
    r.truncate(t).unwrap();
    let (x, y): (usize, usize) = (kani::any(), kani::any());
    kani::assume(x <= y && y <= t);
    let v = r.range(x..y);
    assert!(v.len() == y - x && v.offset_from(&section) == s + x);
    let v = r.range_from(x..);
    assert!(v.len() == t - x && v.offset_from(&section) == s + x);
    let v = r.range_to(..y);
    assert!(v.len() == y && v.offset_from(&section) == s);
    if y > 0 {
        assert!(v.bytes()[y - 1] == buf[s + y - 1]);
    }
    kani::cover!(x > 0 && y < t && s > 0);
}
/// growing a view past its end must panic (documented), never hand out bytes beyond the view
#[kani::proof]
#[kani::unwind(10)]
#[kani::should_panic]
fn c10_q_range_to_past_view_panics() {
    let buf: [u8; N] = kani::any();
    let rc: Rc<[u8]> = Rc::from(&buf[..]);
    let mut r = EndianRcSlice::new(rc, LittleEndian);
    r.truncate(2).unwrap();
    let y: usize = kani::any();
    kani::assume(y > 2 && y <= N);
    let v = r.range_to(..y);
    // reaching this point means the view grew beyond its bounds
    assert!(v.len() > 99, "MUST-NOT-REACH: range_to handed out a view beyond the current one");
}

// ---- UnitHeader::range*: sub-views of the entries at the requested unit offsets ----
#[kani::proof]
#[kani::unwind(12)]
fn c10_q_unit_header_ranges() {
    let buf: [u8; N] = kani::any();
    let enc = crate::c07::any_encoding();
    let entries = EndianSlice::new(&buf[..], LittleEndian);
    // a consistent header: unit_length = (header fields after the length) + entries
    let probe = UnitHeader::new(enc, 0usize, UnitType::Compilation, DebugAbbrevOffset(0), SectionId::DebugInfo, UnitSectionOffset(0), entries);
    let ul = probe.size_of_header() - enc.format.initial_length_size() as usize + N;
    let header = UnitHeader::new(enc, ul, UnitType::Compilation, DebugAbbrevOffset(0), SectionId::DebugInfo, UnitSectionOffset(0), entries);
    let hs = header.header_size();
    assert!(hs == probe.size_of_header());
    let (a, b): (usize, usize) = (kani::any(), kani::any());
    kani::assume(a >= hs && a <= b && b < hs + N);
    let r = header.range(UnitOffset(a)..UnitOffset(b)).unwrap();
    assert!(r.len() == b - a && Reader::offset_from(&r, &entries) == a - hs);
    let r = header.range_from(UnitOffset(a)..).unwrap();
    assert!(r.len() == N - (a - hs) && Reader::offset_from(&r, &entries) == a - hs);
    let r = header.range_to(..UnitOffset(b)).unwrap();
    assert!(r.len() == b - hs && Reader::offset_from(&r, &entries) == 0);
    kani::cover!(a > hs && b > a);
}
