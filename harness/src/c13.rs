//! C13 — written line programs read back to the generated rows (kernel obligations through the `verif` hooks).
//!
//! Composition (DESIGN.md §4 C13):
//!  (1) `LineProgram::generate_row` / `end_sequence` from an arbitrary reachable delta-encoding state: the instruction list
//!      the real writer appends, executed by the reference state machine `mline.rs` (the same model the real reader is
//!      proven equal to, per instruction kind, in C04), emits exactly one row, as its last instruction, and that row is
//!      the row the caller asked for; the writer's registers afterwards are the reader's registers after that row.
//!  (2) `LineInstruction::write` per instruction kind (concrete kind, symbolic operand): the bytes are the standard's
//!      encoding (DWARF 5 §6.2.5), which C04 shows the real reader decodes to that instruction.
//!  (3) `LineProgram::new` accepts every documented line encoding.
use crate::mline::*;
use crate::util::*;
use gimli::write::verif_hooks_line as hk;
use gimli::write::verif_hooks_line::VerifLineInstruction as VI;
use gimli::write::{Address, DebugLine, LineProgram, LineRow as WRow, LineString};
use gimli::*;

const OPCODE_BASE: u8 = 13;

fn enc(version: u16) -> Encoding {
    Encoding { format: Format::Dwarf32, version, address_size: 8 }
}

fn any_line_encoding(min_len: u8, max_ops: u8, line_range: Option<u8>) -> LineEncoding {
    let line_base: i8 = kani::any();
    let line_range: u8 = line_range.unwrap_or(kani::any());
    // documented preconditions of LineProgram::new
    kani::assume(line_base <= 0);
    kani::assume(line_base as i16 + line_range as i16 > 0);
    LineEncoding {
        minimum_instruction_length: min_len,
        maximum_operations_per_instruction: max_ops,
        default_is_stmt: kani::any(),
        line_base,
        line_range,
    }
}

/// line numbers below 2^63 (a larger step cannot be expressed by one DW_LNS_advance_line)
fn any_line() -> u64 {
    let l: u64 = kani::any();
    kani::assume(l <= i64::MAX as u64);
    l
}

fn mhdr(le: &LineEncoding) -> MHdr {
    MHdr {
        min_len: le.minimum_instruction_length,
        max_ops: le.maximum_operations_per_instruction,
        default_is_stmt: le.default_is_stmt,
        line_base: le.line_base,
        line_range: le.line_range,
        opcode_base: OPCODE_BASE,
        addr_size: 8,
    }
}

/// The reader-side registers that correspond to a writer row (addresses relative to the sequence start).
fn mrow(r: &WRow, version: u16) -> MRow {
    MRow {
        tomb: false,
        address: r.address_offset,
        op_index: r.op_index,
        file: hk::file_raw(r.file, version),
        line: r.line,
        column: r.column,
        is_stmt: r.is_statement,
        basic_block: r.basic_block,
        end_sequence: false,
        prologue_end: r.prologue_end,
        epilogue_begin: r.epilogue_begin,
        isa: r.isa,
        discriminator: r.discriminator,
    }
}

fn mins(i: VI, version: u16) -> MIns {
    match i {
        VI::Special(v) => MIns::Special(v),
        VI::Copy => MIns::Copy,
        VI::AdvancePc(v) => MIns::AdvancePc(v),
        VI::AdvanceLine(v) => MIns::AdvanceLine(v),
        VI::SetFile(v) => MIns::SetFile(hk::file_raw(hk::file_id(v), version)),
        VI::SetColumn(v) => MIns::SetColumn(v),
        VI::NegateStatement => MIns::NegateStatement,
        VI::SetBasicBlock => MIns::SetBasicBlock,
        VI::ConstAddPc => MIns::ConstAddPc,
        VI::SetPrologueEnd => MIns::SetPrologueEnd,
        VI::SetEpilogueBegin => MIns::SetEpilogueBegin,
        VI::SetIsa(v) => MIns::SetIsa(v),
        VI::EndSequence => MIns::EndSequence,
        VI::SetAddress(_) => MIns::Unknown, // never produced by generate_row / end_sequence (asserted by the caller)
        VI::SetDiscriminator(v) => MIns::SetDiscriminator(v),
    }
}

/// An arbitrary state reachable after a generated row in an open sequence (representation invariant: the per-row
/// registers were cleared by `generate_row`; op_index < max_ops; offsets are multiples of min_inst_len).
fn any_prev(le: &LineEncoding, addr_bits: u32, with_fields: bool, version: u16) -> WRow {
    let units: u64 = kani::any();
    kani::assume(addr_bits >= 64 || units < (1u64 << (addr_bits & 63)));
    let op_index: u8 = kani::any();
    kani::assume(op_index < le.maximum_operations_per_instruction);
    let file: u32 = if with_fields { kani::any() } else { 0 };
    WRow {
        address_offset: units * le.minimum_instruction_length as u64,
        op_index: op_index as u64,
        file: hk::file_id(file as usize),
        line: any_line(),
        column: if with_fields { kani::any() } else { 0 },
        discriminator: 0,
        is_statement: kani::any(),
        basic_block: false,
        prologue_end: false,
        epilogue_begin: false,
        isa: if with_fields { kani::any() } else { 0 },
    }
}

/// The caller's next row: not before `prev` (the documented requirement of a sequence).
fn any_next(prev: &WRow, le: &LineEncoding, addr_bits: u32, with_fields: bool) -> WRow {
    let units: u64 = kani::any();
    kani::assume(addr_bits >= 64 || units < (1u64 << (addr_bits & 63)));
    let op_index: u8 = kani::any();
    kani::assume(op_index < le.maximum_operations_per_instruction);
    let address_offset = units * le.minimum_instruction_length as u64;
    kani::assume(address_offset > prev.address_offset || (address_offset == prev.address_offset && op_index as u64 >= prev.op_index));
    let mut r = *prev;
    r.address_offset = address_offset;
    r.op_index = op_index as u64;
    r.line = any_line();
    if with_fields {
        let file: u32 = kani::any();
        r.file = hk::file_id(file as usize);
        r.column = kani::any();
        r.discriminator = kani::any();
        r.is_statement = kani::any();
        r.basic_block = kani::any();
        r.prologue_end = kani::any();
        r.epilogue_begin = kani::any();
        r.isa = kani::any();
    }
    r
}

/// Execute the appended instructions with the reference machine: no row before the last instruction, exactly one at the
/// last, equal to `want`.
fn check_list(p: &LineProgram, h: &MHdr, pre: MRow, want: MRow, max_n: usize, version: u16, twin: bool) {
    let n = hk::instruction_count(p);
    assert!(n >= 1 && n <= max_n, "instruction count");
    let mut m = pre;
    let mut i = 0;
    while i < max_n {
        if i < n {
            let ins = hk::instruction(p, i);
            assert!(!matches!(ins, VI::SetAddress(_)), "no address setting inside a row");
            let out = step64(&mut m, h, mins(ins, version));
            if i + 1 < n {
                assert!(out == MOut::Ok(false), "a row is emitted (or an error raised) before the last instruction");
            } else {
                assert!(out == MOut::Ok(true), "the last instruction must emit the row");
            }
        }
        i += 1;
    }
    assert!(m == want, "row read back differs from the row generated");
    if twin {
        assert!(m.address == 0x1234, "twin");
    }
}

fn row_harness(version: u16, min_len: u8, max_ops: u8, line_range: Option<u8>, addr_bits: u32, with_fields: bool, twin: bool) {
    let le = any_line_encoding(min_len, max_ops, line_range);
    let h = mhdr(&le);
    let mut p = hk::bare_program(enc(version), le);
    hk::fixed_instruction_buffer(&mut p, 12);
    let prev = any_prev(&le, addr_bits, with_fields, version);
    hk::set_prev_row(&mut p, prev);
    let next = any_next(&prev, &le, addr_bits, with_fields);
    *p.row() = next;
    p.generate_row();
    check_list(&p, &h, mrow(&prev, version), mrow(&next, version), if with_fields { 11 } else { 3 }, version, twin);
    // delta-encoding state afterwards == the reader's registers after the row (per-row registers cleared)
    let (pr, cur) = hk::rows(&p);
    let mut after = mrow(&next, version);
    after.after_row(&h);
    assert!(mrow(&pr, version) == after && mrow(&cur, version) == after, "writer registers after the row");
    assert!(p.in_sequence());
    kani::cover!(hk::instruction_count(&p) == 1);
    kani::cover!(hk::instruction_count(&p) == 3);
    core::mem::forget(p);
}

// advance lanes: only line / address / op_index change; full 64-bit lines; line parameters symbolic
#[kani::proof]
#[kani::unwind(13)]
fn c13_q_row_advance_m1() {
    row_harness(4, 1, 1, None, 64, false, false);
}
#[kani::proof]
#[kani::unwind(13)]
fn c13_q_row_advance_vliw_twin() {
    row_harness(5, 2, 4, None, 48, false, true);
}
#[kani::proof]
#[kani::unwind(13)]
fn c13_q_row_advance_len4() {
    row_harness(4, 4, 1, None, 62, false, false);
}
#[kani::proof]
#[kani::unwind(13)]
fn c13_q_row_advance_vliw() {
    row_harness(5, 2, 4, None, 48, false, false);
}
// every register changes (up to 11 instructions)
#[kani::proof]
#[kani::unwind(13)]
fn c13_t_row_fields_v4() {
    row_harness(4, 1, 1, Some(14), 64, true, false);
}
#[kani::proof]
#[kani::unwind(13)]
fn c13_t_row_fields_v5() {
    row_harness(5, 1, 1, Some(14), 64, true, false);
}

fn end_harness(version: u16, min_len: u8, max_ops: u8, addr_bits: u32) {
    let le = any_line_encoding(min_len, max_ops, None);
    let h = mhdr(&le);
    let mut p = hk::bare_program(enc(version), le);
    hk::fixed_instruction_buffer(&mut p, 4);
    let prev = any_prev(&le, addr_bits, true, version);
    hk::set_prev_row(&mut p, prev);
    let units: u64 = kani::any();
    kani::assume(addr_bits >= 64 || units < (1u64 << (addr_bits & 63)));
    let end = units * min_len as u64;
    // `end_sequence` uses the current row's op_index ("only the address_offset and op_index fields of the current row
    // are used"): the end of the sequence is not before the last row
    let oi: u8 = kani::any();
    kani::assume(oi < max_ops);
    kani::assume(end > prev.address_offset || (end == prev.address_offset && oi as u64 >= prev.op_index));
    p.row().op_index = oi as u64;
    p.end_sequence(end);
    let n = hk::instruction_count(&p);
    assert!(n == 1 || n == 2);
    let mut m = mrow(&prev, version);
    if n == 2 {
        let i0 = hk::instruction(&p, 0);
        assert!(matches!(i0, VI::AdvancePc(_)));
        assert!(step64(&mut m, &h, mins(i0, version)) == MOut::Ok(false));
    }
    assert!(hk::instruction(&p, n - 1) == VI::EndSequence);
    assert!(m.step(&h, MIns::EndSequence) == MOut::Ok(true));
    assert!(m.address == end && m.end_sequence, "end of sequence address");
    kani::cover!(max_ops == 1 || (end == prev.address_offset && oi as u64 > prev.op_index));
    // only the address is specified for the end-of-sequence row; other registers keep the last row's values
    let mut want = mrow(&prev, version);
    want.address = end;
    want.op_index = oi as u64;
    want.end_sequence = true;
    assert!(m == want, "end-of-sequence row");
    // the writer starts the next sequence from the initial registers, like the reader
    let (pr, cur) = hk::rows(&p);
    assert!(!p.in_sequence());
    assert!(mrow(&pr, version) == MRow::initial(&h) && mrow(&cur, version) == MRow::initial(&h), "registers reset");
    kani::cover!(n == 1);
    kani::cover!(n == 2);
    core::mem::forget(p);
}
#[kani::proof]
#[kani::unwind(4)]
fn c13_q_end_sequence_m1() {
    end_harness(4, 1, 1, 64);
}
#[kani::proof]
#[kani::unwind(4)]
fn c13_q_end_sequence_vliw_v5() {
    end_harness(5, 4, 2, 48);
}

/// begin_sequence / set_address append exactly DW_LNE_set_address(address).
#[kani::proof]
#[kani::unwind(4)]
fn c13_q_set_address() {
    let le = any_line_encoding(1, 1, None);
    let mut p = hk::bare_program(enc(4), le);
    hk::fixed_instruction_buffer(&mut p, 4);
    let a: u64 = kani::any();
    if kani::any() {
        p.begin_sequence(Some(Address::Constant(a)));
    } else {
        p.set_address(Address::Constant(a));
    }
    assert!(p.in_sequence());
    assert!(hk::instruction_count(&p) == 1);
    assert!(hk::instruction(&p, 0) == VI::SetAddress(Address::Constant(a)));
    let (pr, cur) = hk::rows(&p);
    assert!(mrow(&pr, 4) == MRow::initial(&mhdr(&le)) && pr == cur);
    kani::cover!(true);
    core::mem::forget(p);
}

// ---------------------------------------------------------------------------------------------------------------------
// (2) per-kind encoding
fn uleb(b: &mut [u8; 24], mut n: usize, mut v: u64) -> usize {
    loop {
        let byte = (v & 0x7f) as u8;
        v >>= 7;
        if v == 0 {
            b[n] = byte;
            return n + 1;
        }
        b[n] = byte | 0x80;
        n += 1;
    }
}
fn sleb(b: &mut [u8; 24], mut n: usize, mut v: i64) -> usize {
    loop {
        let byte = (v & 0x7f) as u8;
        v >>= 7;
        let done = (v == 0 && byte & 0x40 == 0) || (v == -1 && byte & 0x40 != 0);
        if done {
            b[n] = byte;
            return n + 1;
        }
        b[n] = byte | 0x80;
        n += 1;
    }
}

fn enc_check(ins: VI, version: u16, address_size: u8, want: &[u8; 24], wn: usize) {
    let mut w = DebugLine(ArrW::<RunTimeEndian, 24>::new(any_endian()));
    let e = Encoding { format: Format::Dwarf32, version, address_size };
    let r = hk::write_one(ins, &mut w, e);
    assert!(r.is_ok());
    assert!(w.0.len == wn, "encoded length");
    let mut i = 0;
    while i < 24 {
        if i < wn {
            assert!(w.0.buf[i] == want[i], "encoded byte");
        }
        i += 1;
    }
    kani::cover!(true);
}

macro_rules! enc_harness {
    ($name:ident, |$b:ident, $v:ident| $body:expr) => {
        #[kani::proof]
        #[kani::unwind(25)]
        fn $name() {
            let mut $b = [0u8; 24];
            let $v: u64 = kani::any();
            let (ins, n, version) = $body;
            enc_check(ins, version, 8, &$b, n);
        }
    };
}
enc_harness!(c13_q_enc_special_and_plain, |b, v| {
    let k: u8 = kani::any();
    kani::assume(k < 8);
    let (i, op) = match k {
        0 => (VI::Special(v as u8), v as u8),
        1 => (VI::Copy, 1),
        2 => (VI::NegateStatement, 6),
        3 => (VI::SetBasicBlock, 7),
        4 => (VI::ConstAddPc, 8),
        5 => (VI::SetPrologueEnd, 10),
        6 => (VI::SetEpilogueBegin, 11),
        _ => (VI::Copy, 1),
    };
    b[0] = op;
    (i, 1, 4)
});
enc_harness!(c13_q_enc_advance_pc, |b, v| {
    b[0] = 2;
    (VI::AdvancePc(v), uleb(&mut b, 1, v), 4)
});
enc_harness!(c13_q_enc_advance_line, |b, v| {
    b[0] = 3;
    (VI::AdvanceLine(v as i64), sleb(&mut b, 1, v as i64), 4)
});
enc_harness!(c13_q_enc_set_file_v4, |b, v| {
    // files are numbered from 1 before DWARF 5
    kani::assume(v < u32::MAX as u64);
    b[0] = 4;
    (VI::SetFile(v as usize), uleb(&mut b, 1, v + 1), 4)
});
enc_harness!(c13_q_enc_set_file_v5, |b, v| {
    kani::assume(v < u32::MAX as u64);
    b[0] = 4;
    (VI::SetFile(v as usize), uleb(&mut b, 1, v), 5)
});
enc_harness!(c13_q_enc_set_column, |b, v| {
    b[0] = 5;
    (VI::SetColumn(v), uleb(&mut b, 1, v), 4)
});
enc_harness!(c13_q_enc_set_isa, |b, v| {
    b[0] = 12;
    (VI::SetIsa(v), uleb(&mut b, 1, v), 4)
});
enc_harness!(c13_q_enc_end_sequence, |b, v| {
    b[0] = 0;
    b[1] = 1;
    b[2] = 1;
    (VI::EndSequence, 3, 4)
});
enc_harness!(c13_q_enc_set_discriminator, |b, v| {
    b[0] = 0;
    let n = uleb(&mut b, 2, v);
    b[1] = (n - 2 + 1) as u8; // length of opcode + operand
    b[2] = 4;
    let n = uleb(&mut b, 3, v);
    (VI::SetDiscriminator(v), n, 4)
});

#[kani::proof]
#[kani::unwind(25)]
fn c13_q_enc_set_address() {
    let a: u64 = kani::any();
    let size: u8 = if kani::any() { 4 } else { 8 };
    let endian = any_endian();
    let mut w = DebugLine(ArrW::<RunTimeEndian, 24>::new(endian));
    let e = Encoding { format: Format::Dwarf32, version: 4, address_size: size };
    let r = hk::write_one(VI::SetAddress(Address::Constant(a)), &mut w, e);
    if size == 4 && a > u32::MAX as u64 {
        assert!(r.is_err(), "an address that does not fit the address size must be rejected");
        return;
    }
    assert!(r.is_ok());
    assert!(w.0.len == 3 + size as usize);
    assert!(w.0.buf[0] == 0 && w.0.buf[1] == 1 + size && w.0.buf[2] == 2);
    // the real reader's sized-address primitive reads the operand back
    let mut rd = EndianSlice::new(&w.0.buf[3..3 + size as usize], endian);
    assert!(rd.read_address(size) == Ok(a));
    kani::cover!(size == 4);
    kani::cover!(size == 8);
}

// ---------------------------------------------------------------------------------------------------------------------
// (3) LineProgram::new accepts every documented encoding (line_base <= 0 < line_base + line_range)
#[kani::proof]
#[kani::unwind(20)]
fn c13_q_new_accepts_documented_encodings() {
    let le = any_line_encoding(1, 1, None);
    let p = LineProgram::new(enc(4), le, LineString::String(vec![b'd']), None, LineString::String(vec![b'f']), None);
    assert!(!p.is_none());
    kani::cover!(le.line_range >= 128);
    core::mem::forget(p);
}

// ---------------------------------------------------------------------------------------------------------------------
// The reference machine in 64-bit checked arithmetic. `mline.rs` computes advances in u128/i128; nine 128-bit dividers
// per query (3 instructions x 3 advancing kinds) exhaust the solver's memory, so the row harnesses execute `step64`,
// and the `model_equiv` harnesses decide that it is the same function as `MRow::step` (address size 8).
fn advance64(m: &mut MRow, h: &MHdr, adv: u64) -> MOut {
    let Some(total) = m.op_index.checked_add(adv) else { return MOut::OutOfModel };
    let (q, r) = if h.max_ops == 1 { (total, 0) } else { (total / h.max_ops as u64, total % h.max_ops as u64) };
    let a = if h.min_len == 1 { Some(q) } else { (h.min_len as u64).checked_mul(q) };
    let Some(a) = a else { return MOut::OutOfModel };
    let Some(na) = m.address.checked_add(a) else { return MOut::AddressOverflow };
    m.address = na;
    m.op_index = r;
    MOut::Ok(false)
}
fn advance_line64(m: &mut MRow, inc: i64) -> MOut {
    if inc >= 0 {
        let Some(nl) = m.line.checked_add(inc as u64) else { return MOut::OutOfModel };
        m.line = nl;
    } else {
        m.line = m.line.saturating_sub(inc.unsigned_abs());
    }
    MOut::Ok(false)
}
fn step64(m: &mut MRow, h: &MHdr, ins: MIns) -> MOut {
    match ins {
        MIns::Special(op) => {
            let adjusted = op - h.opcode_base;
            let line_inc = h.line_base as i64 + (adjusted % h.line_range) as i64;
            let op_adv = (adjusted / h.line_range) as u64;
            let mut t = *m;
            match advance_line64(&mut t, line_inc) {
                MOut::Ok(_) => {}
                o => return o,
            }
            match advance64(&mut t, h, op_adv) {
                MOut::Ok(_) => {}
                o => return o,
            }
            *m = t;
            MOut::Ok(true)
        }
        MIns::AdvancePc(a) => advance64(m, h, a),
        MIns::AdvanceLine(i) => advance_line64(m, i),
        MIns::ConstAddPc => advance64(m, h, ((255 - h.opcode_base) / h.line_range) as u64),
        // register moves, flags, copy, end_sequence: no arithmetic - the reference machine itself
        other => m.step(h, other),
    }
}

fn model_equiv(min_len: u8, max_ops: u8) {
    let le = any_line_encoding(min_len, max_ops, None);
    let h = mhdr(&le);
    let pre = MRow {
        tomb: false,
        address: kani::any(),
        op_index: kani::any(),
        file: kani::any(),
        line: kani::any(),
        column: kani::any(),
        is_stmt: kani::any(),
        basic_block: kani::any(),
        end_sequence: false,
        prologue_end: kani::any(),
        epilogue_begin: kani::any(),
        isa: kani::any(),
        discriminator: kani::any(),
    };
    let v: u64 = kani::any();
    let k: u8 = kani::any();
    kani::assume(k < 4);
    let ins = match k {
        0 => {
            kani::assume(v as u8 >= OPCODE_BASE);
            MIns::Special(v as u8)
        }
        1 => MIns::AdvancePc(v),
        2 => MIns::AdvanceLine(v as i64),
        _ => MIns::ConstAddPc,
    };
    let (mut a, mut b) = (pre, pre);
    let ra = a.step(&h, ins);
    let rb = step64(&mut b, &h, ins);
    assert!(ra == rb, "step64 outcome differs from the reference machine");
    if matches!(ra, MOut::Ok(_)) {
        assert!(a == b, "step64 registers differ from the reference machine");
    }
    kani::cover!(ra == MOut::Ok(true));
    kani::cover!(ra == MOut::AddressOverflow);
    kani::cover!(ra == MOut::OutOfModel);
}
#[kani::proof]
fn c13_q_model_step64_equals_mline_1_1() {
    model_equiv(1, 1);
}
#[kani::proof]
fn c13_q_model_step64_equals_mline_4_1() {
    model_equiv(4, 1);
}
#[kani::proof]
fn c13_q_model_step64_equals_mline_2_4() {
    model_equiv(2, 4);
}

