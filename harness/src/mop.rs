//! Reference decoder for a single DWARF expression operation, written from the DWARF 5 standard
//! (§2.5, §7.7.1 Table 7.9) plus the GNU / WebAssembly vendor extensions gimli documents.
//! Returns the expected `gimli::Operation` and the number of bytes the operation occupies.
use crate::util::*;
use gimli::{
    DebugAddrIndex, DebugInfoOffset, DieReference, Encoding, EndianSlice, Endianity, Format, Operation, Register, UnitOffset,
};

pub struct Cur<'a> {
    pub buf: &'a [u8],
    pub pos: usize,
    pub big: bool,
}

impl<'a> Cur<'a> {
    pub fn u(&mut self, n: usize) -> Option<u64> {
        if self.buf.len() - self.pos < n {
            return None;
        }
        let v = ref_uint(&self.buf[self.pos..], n, self.big) as u64;
        self.pos += n;
        Some(v)
    }
    pub fn s(&mut self, n: usize) -> Option<i64> {
        let v = self.u(n)?;
        let sh = 64 - 8 * n as u32;
        Some(((v << sh) as i64) >> sh)
    }
    pub fn uleb(&mut self) -> Option<u64> {
        let (v, n) = ref_uleb(&self.buf[self.pos..])?;
        if v > u64::MAX as u128 || n > 10 {
            return None;
        }
        self.pos += n;
        Some(v as u64)
    }
    pub fn sleb(&mut self) -> Option<i64> {
        let (v, n) = ref_sleb(&self.buf[self.pos..])?;
        if v > i64::MAX as i128 || v < i64::MIN as i128 || n > 10 {
            return None;
        }
        self.pos += n;
        Some(v as i64)
    }
    pub fn addr(&mut self, size: u8) -> Option<u64> {
        match size {
            1 | 2 | 4 | 8 => self.u(size as usize),
            _ => None,
        }
    }
    pub fn offset(&mut self, f: Format) -> Option<u64> {
        self.u(if f == Format::Dwarf64 { 8 } else { 4 })
    }
    pub fn block(&mut self, len: u64) -> Option<(usize, usize)> {
        if ((self.buf.len() - self.pos) as u64) < len {
            return None;
        }
        let start = self.pos;
        self.pos += len as usize;
        Some((start, len as usize))
    }
}

fn reg(v: u64) -> Option<Register> {
    if v > 0xffff {
        None
    } else {
        Some(Register(v as u16))
    }
}

/// Decode the operation at `buf[0..]`.  `None` = not decodable (unknown opcode, truncated, operand out of range).
pub fn model_parse<'a, E: Endianity>(buf: &'a [u8], endian: E, enc: Encoding) -> Option<(Operation<EndianSlice<'a, E>>, usize)> {
    if buf.is_empty() {
        return None;
    }
    let mut c = Cur { buf, pos: 1, big: endian.is_big_endian() };
    let opc = buf[0];
    let generic = UnitOffset(0usize);
    let sl = |r: (usize, usize)| EndianSlice::new(&buf[r.0..r.0 + r.1], endian);
    let op = match opc {
        0x03 => Operation::Address { address: c.addr(enc.address_size)? },
        0x06 => Operation::Deref { base_type: generic, size: enc.address_size, space: false },
        0x08 => Operation::UnsignedConstant { value: c.u(1)? },
        0x09 => Operation::SignedConstant { value: c.s(1)? },
        0x0a => Operation::UnsignedConstant { value: c.u(2)? },
        0x0b => Operation::SignedConstant { value: c.s(2)? },
        0x0c => Operation::UnsignedConstant { value: c.u(4)? },
        0x0d => Operation::SignedConstant { value: c.s(4)? },
        0x0e => Operation::UnsignedConstant { value: c.u(8)? },
        0x0f => Operation::SignedConstant { value: c.s(8)? },
        0x10 => Operation::UnsignedConstant { value: c.uleb()? },
        0x11 => Operation::SignedConstant { value: c.sleb()? },
        0x12 => Operation::Pick { index: 0 },
        0x13 => Operation::Drop,
        0x14 => Operation::Pick { index: 1 },
        0x15 => Operation::Pick { index: c.u(1)? as u8 },
        0x16 => Operation::Swap,
        0x17 => Operation::Rot,
        0x18 => Operation::Deref { base_type: generic, size: enc.address_size, space: true },
        0x19 => Operation::Abs,
        0x1a => Operation::And,
        0x1b => Operation::Div,
        0x1c => Operation::Minus,
        0x1d => Operation::Mod,
        0x1e => Operation::Mul,
        0x1f => Operation::Neg,
        0x20 => Operation::Not,
        0x21 => Operation::Or,
        0x22 => Operation::Plus,
        0x23 => Operation::PlusConstant { value: c.uleb()? },
        0x24 => Operation::Shl,
        0x25 => Operation::Shr,
        0x26 => Operation::Shra,
        0x27 => Operation::Xor,
        0x28 => Operation::Bra { target: c.s(2)? as i16 },
        0x29 => Operation::Eq,
        0x2a => Operation::Ge,
        0x2b => Operation::Gt,
        0x2c => Operation::Le,
        0x2d => Operation::Lt,
        0x2e => Operation::Ne,
        0x2f => Operation::Skip { target: c.s(2)? as i16 },
        0x30..=0x4f => Operation::UnsignedConstant { value: (opc - 0x30) as u64 },
        0x50..=0x6f => Operation::Register { register: Register((opc - 0x50) as u16) },
        0x70..=0x8f => Operation::RegisterOffset { register: Register((opc - 0x70) as u16), offset: c.sleb()?, base_type: generic },
        0x90 => Operation::Register { register: reg(c.uleb()?)? },
        0x91 => Operation::FrameOffset { offset: c.sleb()? },
        0x92 => {
            let r = reg(c.uleb()?)?;
            Operation::RegisterOffset { register: r, offset: c.sleb()?, base_type: generic }
        }
        0x93 => {
            // DW_OP_piece: size in *bytes*; gimli reports bits.  A byte count whose bit count does not fit
            // in 64 bits is not representable: must be rejected (never wrap, never panic).
            let bytes = c.uleb()?;
            if bytes > u64::MAX / 8 {
                return None;
            }
            Operation::Piece { size_in_bits: bytes * 8, bit_offset: None }
        }
        0x94 => Operation::Deref { base_type: generic, size: c.u(1)? as u8, space: false },
        0x95 => Operation::Deref { base_type: generic, size: c.u(1)? as u8, space: true },
        0x96 => Operation::Nop,
        0x97 => Operation::PushObjectAddress,
        0x98 => Operation::Call { offset: DieReference::UnitRef(UnitOffset(c.u(2)? as usize)) },
        0x99 => Operation::Call { offset: DieReference::UnitRef(UnitOffset(c.u(4)? as usize)) },
        0x9a => Operation::Call { offset: DieReference::DebugInfoRef(DebugInfoOffset(c.offset(enc.format)? as usize)) },
        0x9b | 0xe0 => Operation::TLS,
        0x9c => Operation::CallFrameCFA,
        0x9d => {
            let size = c.uleb()?;
            Operation::Piece { size_in_bits: size, bit_offset: Some(c.uleb()?) }
        }
        0x9e => {
            let len = c.uleb()?;
            Operation::ImplicitValue { data: sl(c.block(len)?) }
        }
        0x9f => Operation::StackValue,
        0xa0 | 0xf2 => {
            // DWARF 2: reference is address-sized; later: offset-sized
            let value = if enc.version == 2 { c.addr(enc.address_size)? } else { c.offset(enc.format)? };
            Operation::ImplicitPointer { value: DebugInfoOffset(value as usize), byte_offset: c.sleb()? }
        }
        0xa1 | 0xfb => Operation::AddressIndex { index: DebugAddrIndex(c.uleb()? as usize) },
        0xa2 | 0xfc => Operation::ConstantIndex { index: DebugAddrIndex(c.uleb()? as usize) },
        0xa3 | 0xf3 => {
            let len = c.uleb()?;
            Operation::EntryValue { expression: sl(c.block(len)?) }
        }
        0xa4 | 0xf4 => {
            let t = c.uleb()?;
            let len = c.u(1)?;
            Operation::TypedLiteral { base_type: UnitOffset(t as usize), value: sl(c.block(len)?) }
        }
        0xa5 | 0xf5 => {
            let r = reg(c.uleb()?)?;
            Operation::RegisterOffset { register: r, offset: 0, base_type: UnitOffset(c.uleb()? as usize) }
        }
        0xa6 | 0xf6 => {
            let size = c.u(1)? as u8;
            Operation::Deref { base_type: UnitOffset(c.uleb()? as usize), size, space: false }
        }
        0xa7 => {
            let size = c.u(1)? as u8;
            Operation::Deref { base_type: UnitOffset(c.uleb()? as usize), size, space: true }
        }
        0xa8 | 0xf7 => Operation::Convert { base_type: UnitOffset(c.uleb()? as usize) },
        0xa9 | 0xf9 => Operation::Reinterpret { base_type: UnitOffset(c.uleb()? as usize) },
        0xf0 => Operation::Uninitialized,
        0xfa => Operation::ParameterRef { offset: UnitOffset(c.u(4)? as usize) },
        0xfd => Operation::VariableValue { offset: DebugInfoOffset(c.offset(enc.format)? as usize) },
        0xed => {
            let kind = c.u(1)?;
            let idx = |c: &mut Cur| -> Option<u32> {
                let v = c.uleb()?;
                if v > u32::MAX as u64 {
                    None
                } else {
                    Some(v as u32)
                }
            };
            match kind {
                0 => Operation::WasmLocal { index: idx(&mut c)? },
                1 => Operation::WasmGlobal { index: idx(&mut c)? },
                2 => Operation::WasmStack { index: idx(&mut c)? },
                3 => Operation::WasmGlobal { index: c.u(4)? as u32 },
                _ => return None,
            }
        }
        _ => return None,
    };
    Some((op, c.pos))
}
