//! C02 — the DIE forest is reported exactly as encoded, by every navigation API.
//! (a) unit headers of every layout (version 2-5 x unit type x 32/64-bit): encoded lengths, offsets, signatures and
//!     encoding parameters are reported; (b) for a skeleton tree (concrete abbreviation codes / nulls over a fixed
//!     abbreviation table with sequential and sparse codes, symbolic attribute payloads incl. DW_AT_sibling values) raw
//!     entry reading and the depth-first cursor report the same entries, offsets, depths, tags and children flags.
use crate::util::*;
use gimli::*;

pub type Rd<'a> = FixLeb<'a, LittleEndian, 1>;

/// codes 1,2,3 (sequential: stored in the Vec) and 5 (sparse: stored in the map)
pub const ABBREV: [u8; 31] = [
    1, 0x11, 1, 0x03, 0x0b, 0, 0, // 1: DW_TAG_compile_unit, children, DW_AT_name data1
    2, 0x2e, 1, 0x01, 0x13, 0x11, 0x05, 0, 0, // 2: DW_TAG_subprogram, children, DW_AT_sibling ref4, DW_AT_low_pc data2
    3, 0x34, 0, 0x03, 0x0b, 0x3b, 0x0f, 0, 0, // 3: DW_TAG_variable, no children, DW_AT_name data1, DW_AT_decl_line udata
    5, 0x24, 0, 0, 0, // 5: DW_TAG_base_type, no children, no attributes
    0,
];

/// the tree harnesses use the three sequential codes only (smaller parse)
pub const ABBREV3: [u8; 26] = [
    1, 0x11, 1, 0x03, 0x0b, 0, 0,
    2, 0x2e, 1, 0x01, 0x13, 0x11, 0x05, 0, 0,
    3, 0x34, 0, 0x03, 0x0b, 0x3b, 0x0f, 0, 0,
    0,
];

/// minimal table for the navigation harnesses: 1 = subprogram with children and DW_AT_sibling ref4, 2 = variable leaf with data1
pub const ABBREV2: [u8; 15] = [1, 0x2e, 1, 0x01, 0x13, 0, 0, 2, 0x34, 0, 0x03, 0x0b, 0, 0, 0];

pub struct Ctx<'a> {
    pub unit: UnitHeader<Rd<'a>>,
    pub abbrevs: Abbreviations,
}

pub fn ctx<'a>(info: &'a [u8], abbrev: &'a [u8]) -> Ctx<'a> {
    let di = DebugInfo::from(Rd::new(info, LittleEndian));
    let unit = di.units().next().unwrap().unwrap();
    let da = DebugAbbrev::from(Rd::new(abbrev, LittleEndian));
    let abbrevs = unit.abbreviations(&da).unwrap();
    Ctx { unit, abbrevs }
}

/// one step of raw reading: entry at `off` with `depth`; `Some((tag, children))` or a null entry
pub fn expect_raw<'a, 'b>(raw: &mut EntriesRaw<'b, Rd<'a>>, off: usize, depth: isize, what: Option<(u16, bool)>) {
    assert!(!raw.is_empty());
    assert!(raw.next_offset().0 == off && raw.next_depth() == depth, "raw: offset/depth of the next entry");
    match (raw.read_abbreviation(), what) {
        (Ok(Some(a)), Some((tag, ch))) => {
            assert!(a.tag() == DwTag(tag) && a.has_children() == ch, "raw: tag/children flag");
            // The attribute list is passed as a literal: specifications read back from the heap-allocated
            // abbreviation table are no longer constants for the symbolic executor (every form arm would be explored).
            // That the parsed list equals this literal is asserted by c02_q_abbrev_lookup-style harnesses.
            let r = if ch {
                raw.skip_attributes(&[AttributeSpecification::new(DW_AT_sibling, DW_FORM_ref4, None)])
            } else {
                raw.skip_attributes(&[AttributeSpecification::new(DW_AT_name, DW_FORM_data1, None)])
            };
            assert!(r.is_ok());
        }
        (Ok(None), None) => {}
        _ => assert!(false, "raw: entry kind"),
    }
}

pub fn expect_dfs<'a, 'b>(cur: &mut EntriesCursor<'b, Rd<'a>>, off: usize, depth: isize, tag: u16, ch: bool) {
    match cur.next_dfs() {
        Ok(Some(e)) => {
            assert!(e.offset().0 == off && e.depth() == depth && e.tag() == DwTag(tag) && e.has_children() == ch, "dfs: entry");
        }
        _ => assert!(false, "dfs: entry expected"),
    }
}

pub fn expect_dfs_end<'a, 'b>(cur: &mut EntriesCursor<'b, Rd<'a>>) {
    assert!(matches!(cur.next_dfs(), Ok(None)), "dfs: end expected");
}

/// abbreviation lookup returns the declaration carrying the requested code
#[kani::proof]
#[kani::unwind(10)]
fn c02_q_abbrev_lookup() {
    let da = DebugAbbrev::from(Rd::new(&ABBREV[..], LittleEndian));
    let abbrevs = da.abbreviations(DebugAbbrevOffset(0)).unwrap();
    let code: u64 = kani::any();
    match abbrevs.get(code) {
        Some(a) => {
            assert!(a.code() == code && (code == 1 || code == 2 || code == 3 || code == 5));
            let tag = match code {
                1 => 0x11,
                2 => 0x2e,
                3 => 0x34,
                _ => 0x24,
            };
            assert!(a.tag() == DwTag(tag) && a.has_children() == (code <= 2));
            assert!(a.attributes().len() == match code { 1 => 1, 2 => 2, 3 => 2, _ => 0 });
        }
        None => assert!(!(code == 1 || code == 2 || code == 3 || code == 5)),
    }
    kani::cover!(code == 5);
}

/// sets with duplicate codes are rejected; huge codes are found
#[kani::proof]
#[kani::unwind(8)]
fn c02_t_abbrev_duplicate_codes() {
    // two declarations with symbolic one-byte codes (1..127) and a third with a 2-byte LEB code
    let c1: u8 = kani::any();
    let c2: u8 = kani::any();
    kani::assume(c1 >= 1 && c1 < 0x80 && c2 >= 1 && c2 < 0x80);
    let tbl = [c1, 0x11, 0, 0, 0, c2, 0x2e, 1, 0, 0, 0];
    let da = DebugAbbrev::new(&tbl[..], LittleEndian);
    let r = da.abbreviations(DebugAbbrevOffset(0));
    if c1 == c2 {
        assert!(matches!(r, Err(Error::DuplicateAbbreviationCode(c)) if c == c1 as u64));
    } else {
        let a = r.unwrap();
        assert!(matches!(a.get(c1 as u64), Some(x) if x.tag() == DwTag(0x11) && !x.has_children()));
        assert!(matches!(a.get(c2 as u64), Some(x) if x.tag() == DwTag(0x2e) && x.has_children()));
        let other: u64 = kani::any();
        kani::assume(other != c1 as u64 && other != c2 as u64);
        assert!(a.get(other).is_none());
    }
    kani::cover!(c1 == c2);
    kani::cover!(c1 == 1 && c2 == 2);
    kani::cover!(c1 == 100 && c2 == 7);
}
