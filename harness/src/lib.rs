#![allow(dead_code, unused_imports, unused_macros, unused_variables, unused_mut, clippy::all)]
pub mod util;
pub mod mvalue;
pub mod mop;
pub mod mattr;
pub mod mline;
pub mod mcfi;
#[cfg(kani)]
mod gen;
#[cfg(kani)]
mod c09;
#[cfg(kani)]
pub mod c07;
#[cfg(kani)]
pub mod c07e;
#[cfg(kani)]
pub mod c03;
#[cfg(kani)]
pub mod c04;
#[cfg(kani)]
pub mod c01;
#[cfg(kani)]
pub mod c06;
#[cfg(kani)]
pub mod c08;
#[cfg(kani)]
pub mod c10;
#[cfg(kani)]
pub mod c20;
#[cfg(kani)]
pub mod c05;
#[cfg(kani)]
pub mod c17;
#[cfg(kani)]
pub mod c18;
#[cfg(kani)]
pub mod c02;
#[cfg(kani)]
pub mod c15;
#[cfg(kani)]
pub mod c14;
#[cfg(kani)]
pub mod c13;
#[cfg(kani)]
mod setup;
