//! C09 — primitive codecs: LEB128, sized integers and lengths are exact.
//! Every harness is full-width (all bytes / all values symbolic); the only bound is the 11-byte LEB
//! buffer (an encoding longer than 10 bytes is rejected by the 10th-byte rule, which is covered).
use crate::util::*;
use gimli::leb128;
use gimli::read::{Error, Reader, ReaderOffset};
use gimli::write::Writer;
use gimli::{BigEndian, EndianSlice, Endianity, Format, LittleEndian, RunTimeEndian};


// ------------------------------------------------------------------------------------------------
// LEB128 readers: every byte string of length <= 11 (bytes and length symbolic)
// ------------------------------------------------------------------------------------------------
#[kani::proof]
#[kani::unwind(13)]
fn c09_q_uleb_read() {
    let buf: [u8; 11] = kani::any();
    let len: usize = kani::any();
    kani::assume(len <= 11);
    let mut r = EndianSlice::new(&buf[..len], LittleEndian);
    let res = leb128::read::unsigned(&mut r);
    let m = ref_uleb(&buf[..len]);
    match res {
        Ok(x) => {
            let (v, n) = m.unwrap();
            assert!(v <= u64::MAX as u128);
            assert!(x as u128 == v);
            assert!(r.len() == len - n);
        }
        Err(e) => {
            // rejected only when unterminated, too wide for 64 bits, or longer than 10 bytes
            match m {
                None => assert!(e == Error::BadUnsignedLeb128 || matches!(e, Error::UnexpectedEof(_))),
                Some((v, n)) => {
                    assert!(v > u64::MAX as u128 || n > 10);
                    assert!(e == Error::BadUnsignedLeb128);
                }
            }
        }
    }
    kani::cover!(matches!(res, Ok(x) if x > u32::MAX as u64));
    kani::cover!(matches!(res, Err(Error::BadUnsignedLeb128)));
}

#[kani::proof]
#[kani::unwind(13)]
fn c09_q_uleb_read_twin() {
    let buf: [u8; 11] = kani::any();
    let len: usize = kani::any();
    kani::assume(len <= 11);
    let mut r = EndianSlice::new(&buf[..len], LittleEndian);
    let res = leb128::read::unsigned(&mut r);
    if let Ok(x) = res {
        assert!(x != 0x1234_5678_9abc, "twin");
    }
}

#[kani::proof]
#[kani::unwind(13)]
fn c09_q_sleb_read() {
    let buf: [u8; 11] = kani::any();
    let len: usize = kani::any();
    kani::assume(len <= 11);
    let mut r = EndianSlice::new(&buf[..len], LittleEndian);
    let res = leb128::read::signed(&mut r);
    let m = ref_sleb(&buf[..len]);
    match res {
        Ok(x) => {
            let (v, n) = m.unwrap();
            assert!(v >= i64::MIN as i128 && v <= i64::MAX as i128);
            assert!(x as i128 == v);
            assert!(r.len() == len - n);
        }
        Err(e) => match m {
            None => assert!(e == Error::BadSignedLeb128 || matches!(e, Error::UnexpectedEof(_))),
            Some((v, n)) => {
                assert!(v < i64::MIN as i128 || v > i64::MAX as i128 || n > 10);
                assert!(e == Error::BadSignedLeb128);
            }
        },
    }
    kani::cover!(matches!(res, Ok(x) if x < i32::MIN as i64));
    kani::cover!(matches!(res, Err(Error::BadSignedLeb128)));
}

#[kani::proof]
#[kani::unwind(6)]
fn c09_q_uleb16_read() {
    let buf: [u8; 4] = kani::any();
    let len: usize = kani::any();
    kani::assume(len <= 4);
    let mut r = EndianSlice::new(&buf[..len], LittleEndian);
    let res = leb128::read::u16(&mut r);
    let m = ref_uleb(&buf[..len]);
    match res {
        Ok(x) => {
            let (v, n) = m.unwrap();
            assert!(v <= u16::MAX as u128);
            assert!(x as u128 == v);
            assert!(r.len() == len - n);
        }
        Err(e) => match m {
            None => assert!(e == Error::BadUnsignedLeb128 || matches!(e, Error::UnexpectedEof(_))),
            Some((v, n)) => {
                assert!(v > u16::MAX as u128 || n > 3);
                assert!(e == Error::BadUnsignedLeb128);
            }
        },
    }
    kani::cover!(matches!(res, Ok(x) if x > 0x4000));
    kani::cover!(matches!(res, Err(Error::BadUnsignedLeb128)));
}

#[kani::proof]
#[kani::unwind(13)]
fn c09_q_uleb32_read_via_reader() {
    let buf: [u8; 11] = kani::any();
    let len: usize = kani::any();
    kani::assume(len <= 11);
    let mut r = EndianSlice::new(&buf[..len], LittleEndian);
    let res = r.read_uleb128_u32();
    let m = ref_uleb(&buf[..len]);
    match res {
        Ok(x) => {
            let (v, n) = m.unwrap();
            assert!(v <= u32::MAX as u128);
            assert!(x as u128 == v);
            assert!(r.len() == len - n);
        }
        Err(_) => {
            if let Some((v, n)) = m {
                assert!(v > u32::MAX as u128 || n > 10);
            }
        }
    }
    kani::cover!(matches!(res, Ok(x) if x > 0x1000_0000));
}

#[kani::proof]
#[kani::unwind(13)]
fn c09_q_leb_skip() {
    let buf: [u8; 11] = kani::any();
    let len: usize = kani::any();
    kani::assume(len <= 11);
    let mut r = EndianSlice::new(&buf[..len], LittleEndian);
    let res = leb128::read::skip(&mut r);
    let m = ref_uleb(&buf[..len]);
    match res {
        Ok(()) => assert!(r.len() == len - m.unwrap().1),
        Err(_) => assert!(m.is_none()),
    }
    kani::cover!(res.is_ok() && r.len() == 0 && len == 11);
}

// ------------------------------------------------------------------------------------------------
// LEB128 writers: all u64 / i64
// ------------------------------------------------------------------------------------------------
#[kani::proof]
#[kani::unwind(12)]
fn c09_q_uleb_write() {
    let v: u64 = kani::any();
    let e = leb128::write::Leb128::unsigned(v);
    let n = e.len();
    assert!(n == leb128::write::uleb128_size(v));
    assert!(n >= 1 && n <= 10);
    // canonical: shortest encoding
    assert!(n == 10 || (v >> (7 * n as u32)) == 0);
    assert!(n == 1 || (v >> (7 * (n as u32 - 1))) != 0);
    let mut buf = [0u8; 10];
    buf[..n].copy_from_slice(e.bytes());
    let mut r = EndianSlice::new(&buf[..n], LittleEndian);
    assert!(leb128::read::unsigned(&mut r) == Ok(v));
    assert!(r.len() == 0);
    kani::cover!(n == 10);
    kani::cover!(n == 5);
}

#[kani::proof]
#[kani::unwind(12)]
fn c09_q_sleb_write() {
    let v: i64 = kani::any();
    let e = leb128::write::Leb128::signed(v);
    let n = e.len();
    assert!(n == leb128::write::sleb128_size(v));
    assert!(n >= 1 && n <= 10);
    // canonical: value needs more than 7(n-1) bits incl. sign, fits in 7n bits incl. sign
    if n < 10 {
        let lim = 1i128 << (7 * n as u32 - 1);
        assert!((v as i128) >= -lim && (v as i128) < lim);
    }
    if n > 1 {
        let lim = 1i128 << (7 * (n as u32 - 1) - 1);
        assert!((v as i128) < -lim || (v as i128) >= lim);
    }
    let mut buf = [0u8; 10];
    buf[..n].copy_from_slice(e.bytes());
    let mut r = EndianSlice::new(&buf[..n], LittleEndian);
    assert!(leb128::read::signed(&mut r) == Ok(v));
    assert!(r.len() == 0);
    kani::cover!(n == 10 && v < 0);
    kani::cover!(n == 10 && v > 0);
}

#[kani::proof]
#[kani::unwind(12)]
fn c09_q_writer_leb_roundtrip() {
    let e = any_endian();
    let mut w: ArrW<RunTimeEndian, 24> = ArrW::new(e);
    let u: u64 = kani::any();
    let s: i64 = kani::any();
    w.write_uleb128(u).unwrap();
    let n1 = w.len;
    w.write_sleb128(s).unwrap();
    let n2 = w.len;
    assert!(n1 == leb128::write::uleb128_size(u));
    assert!(n2 - n1 == leb128::write::sleb128_size(s));
    let mut r = EndianSlice::new(&w.buf[..n2], e);
    assert!(r.read_uleb128() == Ok(u));
    assert!(r.read_sleb128() == Ok(s));
    assert!(r.is_empty());
    kani::cover!(n2 == 20);
}

// ------------------------------------------------------------------------------------------------
// fixed-width integers, both byte orders (run-time endian symbolic)
// ------------------------------------------------------------------------------------------------
#[kani::proof]
#[kani::unwind(18)]
fn c09_q_endian_read_fixed() {
    let buf: [u8; 16] = kani::any();
    let e = any_endian();
    let big = e.is_big_endian();
    assert!(e.read_u16(&buf) as u128 == ref_uint(&buf, 2, big));
    assert!(e.read_u32(&buf) as u128 == ref_uint(&buf, 4, big));
    assert!(e.read_u64(&buf) as u128 == ref_uint(&buf, 8, big));
    assert!(e.read_u128(&buf) == ref_uint(&buf, 16, big));
    assert!(e.read_i16(&buf) == ref_uint(&buf, 2, big) as u16 as i16);
    assert!(e.read_i32(&buf) == ref_uint(&buf, 4, big) as u32 as i32);
    assert!(e.read_i64(&buf) == ref_uint(&buf, 8, big) as u64 as i64);
    assert!(LittleEndian.read_u32(&buf) as u128 == ref_uint(&buf, 4, false));
    assert!(BigEndian.read_u32(&buf) as u128 == ref_uint(&buf, 4, true));
    assert!(LittleEndian.read_u64(&buf) as u128 == ref_uint(&buf, 8, false));
    assert!(BigEndian.read_u64(&buf) as u128 == ref_uint(&buf, 8, true));
    kani::cover!(big);
    kani::cover!(!big);
}

#[kani::proof]
#[kani::unwind(10)]
fn c09_q_endian_read_uint_n() {
    let buf: [u8; 8] = kani::any();
    let mut e = any_endian();
    let n: usize = kani::any();
    kani::assume(n >= 1 && n <= 8);
    let big = e.is_big_endian();
    assert!(e.read_uint(&buf[..n]) as u128 == ref_uint(&buf, n, big));
    kani::cover!(n == 3 && big);
    kani::cover!(n == 7 && !big);
}

#[kani::proof]
#[kani::unwind(18)]
fn c09_q_endian_write_fixed() {
    let e = any_endian();
    let big = e.is_big_endian();
    let mut buf = [0u8; 16];
    let a: u16 = kani::any();
    e.write_u16(&mut buf, a);
    assert!(ref_uint(&buf, 2, big) == a as u128);
    assert!(e.read_u16(&buf) == a);
    let b: u32 = kani::any();
    e.write_u32(&mut buf, b);
    assert!(ref_uint(&buf, 4, big) == b as u128);
    assert!(e.read_u32(&buf) == b);
    let c: u64 = kani::any();
    e.write_u64(&mut buf, c);
    assert!(ref_uint(&buf, 8, big) == c as u128);
    assert!(e.read_u64(&buf) == c);
    let d: u128 = kani::any();
    e.write_u128(&mut buf, d);
    assert!(ref_uint(&buf, 16, big) == d);
    assert!(e.read_u128(&buf) == d);
    kani::cover!(big);
}

#[kani::proof]
#[kani::unwind(18)]
fn c09_q_reader_fixed() {
    // Reader::read_{u8,i8,u16,i16,u32,i32,u64,i64} on a buffer of symbolic length: value and consumption.
    let buf: [u8; 8] = kani::any();
    let len: usize = kani::any();
    kani::assume(len <= 8);
    let e = any_endian();
    let big = e.is_big_endian();
    let which: u8 = kani::any();
    kani::assume(which < 8);
    let mut r = EndianSlice::new(&buf[..len], e);
    let (n, got): (usize, Option<u64>) = match which {
        0 => (1, r.read_u8().ok().map(|x| x as u64)),
        1 => (1, r.read_i8().ok().map(|x| x as u8 as u64)),
        2 => (2, r.read_u16().ok().map(|x| x as u64)),
        3 => (2, r.read_i16().ok().map(|x| x as u16 as u64)),
        4 => (4, r.read_u32().ok().map(|x| x as u64)),
        5 => (4, r.read_i32().ok().map(|x| x as u32 as u64)),
        6 => (8, r.read_u64().ok()),
        _ => (8, r.read_i64().ok().map(|x| x as u64)),
    };
    match got {
        Some(v) => {
            assert!(len >= n);
            assert!(v as u128 == ref_uint(&buf, n, big));
            assert!(r.len() == len - n);
        }
        None => assert!(len < n),
    }
    kani::cover!(which == 7 && got.is_some());
    kani::cover!(which == 4 && got.is_none());
}

#[kani::proof]
#[kani::unwind(18)]
fn c09_q_reader_u128_and_uint() {
    let buf: [u8; 16] = kani::any();
    let e = any_endian();
    let big = e.is_big_endian();
    let mut r = EndianSlice::new(&buf[..], e);
    assert!(r.read_u128() == Ok(ref_uint(&buf, 16, big)));
    assert!(r.is_empty());
    let n: usize = kani::any();
    kani::assume(n >= 1 && n <= 8);
    let len: usize = kani::any();
    kani::assume(len <= 8);
    let mut r = EndianSlice::new(&buf[..len], e);
    match r.read_uint(n) {
        Ok(v) => {
            assert!(n <= len);
            assert!(v as u128 == ref_uint(&buf, n, big));
            assert!(r.len() == len - n);
        }
        Err(_) => assert!(n > len),
    }
    kani::cover!(n == 5 && len == 8);
}

// ------------------------------------------------------------------------------------------------
// lengths, addresses, offsets
// ------------------------------------------------------------------------------------------------
#[kani::proof]
#[kani::unwind(14)]
fn c09_q_initial_length() {
    let buf: [u8; 12] = kani::any();
    let len: usize = kani::any();
    kani::assume(len <= 12);
    let e = any_endian();
    let big = e.is_big_endian();
    let mut r = EndianSlice::new(&buf[..len], e);
    let res = r.read_initial_length();
    if len < 4 {
        assert!(res.is_err());
    } else {
        let w = ref_uint(&buf, 4, big) as u32;
        if w < 0xffff_fff0 {
            assert!(res == Ok((w as usize, Format::Dwarf32)));
            assert!(r.len() == len - 4);
        } else if w == 0xffff_ffff {
            if len < 12 {
                assert!(res.is_err());
            } else {
                let v = ref_uint(&buf[4..], 8, big) as u64;
                assert!(res == Ok((v as usize, Format::Dwarf64)));
                assert!(r.len() == 0);
            }
        } else {
            assert!(res == Err(Error::UnknownReservedLength(w)));
        }
    }
    kani::cover!(matches!(res, Ok((_, Format::Dwarf64))));
    kani::cover!(matches!(res, Err(Error::UnknownReservedLength(_))));
}

#[kani::proof]
#[kani::unwind(10)]
fn c09_q_sized_reads() {
    // every size argument 0..=255
    let buf: [u8; 8] = kani::any();
    let e = any_endian();
    let big = e.is_big_endian();
    let size: u8 = kani::any();
    let valid = size == 1 || size == 2 || size == 4 || size == 8;
    let mut r = EndianSlice::new(&buf[..], e);
    let a = r.read_address(size);
    if valid {
        assert!(a == Ok(ref_uint(&buf, size as usize, big) as u64));
        assert!(r.len() == 8 - size as usize);
    } else {
        assert!(a == Err(Error::UnsupportedAddressSize(size)));
        assert!(r.len() == 8);
    }
    let mut r = EndianSlice::new(&buf[..], e);
    let o = r.read_sized_offset(size);
    if valid {
        assert!(o == Ok(ref_uint(&buf, size as usize, big) as usize));
        assert!(r.len() == 8 - size as usize);
    } else {
        assert!(o == Err(Error::UnsupportedOffsetSize(size)));
    }
    let mut r = EndianSlice::new(&buf[..], e);
    let s = r.read_address_size();
    let b0 = buf[0];
    if b0 == 1 || b0 == 2 || b0 == 4 || b0 == 8 {
        assert!(s == Ok(b0));
    } else {
        assert!(s == Err(Error::UnsupportedAddressSize(b0)));
    }
    let mut r = EndianSlice::new(&buf[..], e);
    let f = if kani::any() { Format::Dwarf32 } else { Format::Dwarf64 };
    let w = r.read_word(f);
    let ws = f.word_size() as usize;
    assert!(ws == if f == Format::Dwarf64 { 8 } else { 4 });
    assert!(w == Ok(ref_uint(&buf, ws, big) as usize));
    assert!(r.len() == 8 - ws);
    let mut r2 = EndianSlice::new(&buf[..], e);
    assert!(r2.read_offset(f) == w);
    let mut r3 = EndianSlice::new(&buf[..], e);
    assert!(r3.read_length(f) == w);
    kani::cover!(size == 8);
    kani::cover!(size == 3);
}

#[kani::proof]
fn c09_q_reader_offset_from_u64() {
    let v: u64 = kani::any();
    match <u32 as ReaderOffset>::from_u64(v) {
        Ok(x) => assert!(x as u64 == v),
        Err(e) => {
            assert!(v > u32::MAX as u64);
            assert!(e == Error::UnsupportedOffset);
        }
    }
    assert!(<u64 as ReaderOffset>::from_u64(v) == Ok(v));
    assert!(<usize as ReaderOffset>::from_u64(v) == Ok(v as usize));
    let a: u32 = kani::any();
    let b: u32 = kani::any();
    assert!(ReaderOffset::wrapping_add(a, b) == a.wrapping_add(b));
    assert!(ReaderOffset::checked_sub(a, b) == if a >= b { Some(a - b) } else { None });
    assert!(ReaderOffset::into_u64(a) == a as u64);
    kani::cover!(v > u32::MAX as u64);
}

// ------------------------------------------------------------------------------------------------
// Writer: sized data, value-fits checks and read-back identity
// ------------------------------------------------------------------------------------------------
#[kani::proof]
#[kani::unwind(10)]
fn c09_q_writer_udata_sdata() {
    let e = any_endian();
    let size: u8 = kani::any();
    let valid = size == 1 || size == 2 || size == 4 || size == 8;
    let v: u64 = kani::any();
    let mut w: ArrW<RunTimeEndian, 8> = ArrW::new(e);
    let res = w.write_udata(v, size);
    if !valid {
        assert!(res == Err(gimli::write::Error::UnsupportedWordSize(size)));
        assert!(w.len == 0);
    } else {
        let fits = size == 8 || v < (1u64 << (8 * size as u32));
        if fits {
            assert!(res.is_ok());
            assert!(w.len == size as usize);
            let mut r = EndianSlice::new(&w.buf[..w.len], e);
            assert!(r.read_uint(size as usize) == Ok(v));
        } else {
            assert!(res == Err(gimli::write::Error::ValueTooLarge));
            assert!(w.len == 0);
        }
    }
    let s: i64 = kani::any();
    let mut w: ArrW<RunTimeEndian, 8> = ArrW::new(e);
    let res = w.write_sdata(s, size);
    if valid {
        let bits = 8 * size as u32;
        let fits = size == 8 || (s >= -(1i64 << (bits - 1)) && s < (1i64 << (bits - 1)));
        if fits {
            assert!(res.is_ok());
            assert!(w.len == size as usize);
            let mut r = EndianSlice::new(&w.buf[..w.len], e);
            let raw = r.read_uint(size as usize).unwrap();
            // sign-extend
            let back = if size == 8 { raw as i64 } else { ((raw << (64 - bits)) as i64) >> (64 - bits) };
            assert!(back == s);
        } else {
            assert!(res == Err(gimli::write::Error::ValueTooLarge));
        }
    } else {
        assert!(res == Err(gimli::write::Error::UnsupportedWordSize(size)));
    }
    kani::cover!(valid && size == 2 && v > 0xffff);
    kani::cover!(valid && size == 4 && s < 0 && res.is_ok());
}

#[kani::proof]
#[kani::unwind(14)]
fn c09_q_writer_fixed_and_at() {
    let e = any_endian();
    let mut w: ArrW<RunTimeEndian, 32> = ArrW::new(e);
    let a: u8 = kani::any();
    let b: u16 = kani::any();
    let c: u32 = kani::any();
    let d: u64 = kani::any();
    w.write_u8(a).unwrap();
    w.write_u16(b).unwrap();
    w.write_u32(c).unwrap();
    w.write_u64(d).unwrap();
    assert!(w.len == 15);
    let mut r = EndianSlice::new(&w.buf[..w.len], e);
    assert!(r.read_u8() == Ok(a));
    assert!(r.read_u16() == Ok(b));
    assert!(r.read_u32() == Ok(c));
    assert!(r.read_u64() == Ok(d));
    // overwrite in place
    let c2: u32 = kani::any();
    let off: usize = kani::any();
    kani::assume(off <= 20);
    let res = w.write_u32_at(off, c2);
    if off + 4 <= 15 {
        assert!(res.is_ok());
        let mut r = EndianSlice::new(&w.buf[off..off + 4], e);
        assert!(r.read_u32() == Ok(c2));
        assert!(w.len == 15);
    } else {
        assert!(res.is_err());
    }
    kani::cover!(res.is_ok() && off == 11);
    kani::cover!(res.is_err());
}

#[kani::proof]
#[kani::unwind(14)]
fn c09_q_writer_initial_length() {
    let e = any_endian();
    let f = if kani::any() { Format::Dwarf32 } else { Format::Dwarf64 };
    let mut w: ArrW<RunTimeEndian, 16> = ArrW::new(e);
    let off = w.write_initial_length(f).unwrap();
    assert!(w.len == if f == Format::Dwarf64 { 12 } else { 4 });
    let l: u64 = kani::any();
    let res = w.write_initial_length_at(off, l, f);
    if f == Format::Dwarf32 && l > u32::MAX as u64 {
        assert!(res.is_err());
    } else {
        assert!(res.is_ok());
        let mut r = EndianSlice::new(&w.buf[..w.len], e);
        let back = r.read_initial_length();
        // values in the reserved range 0xfffffff0..=0xffffffff cannot be expressed in 32-bit DWARF:
        // reading back must then never silently give a *different* (length, format).
        if let Ok((x, ff)) = back {
            if ff == f {
                assert!(x as u64 == l);
            }
        }
        if f == Format::Dwarf64 || l < 0xffff_fff0 {
            assert!(back == Ok((l as usize, f)));
        }
    }
    kani::cover!(f == Format::Dwarf64 && l > u32::MAX as u64);
}

#[kani::proof]
#[kani::unwind(10)]
fn c09_q_writer_address_offset() {
    // Writer::write_address(Constant) / write_offset with every size 0..=255
    let e = any_endian();
    let size: u8 = kani::any();
    let valid = size == 1 || size == 2 || size == 4 || size == 8;
    let v: u64 = kani::any();
    let mut w: ArrW<RunTimeEndian, 8> = ArrW::new(e);
    let res = w.write_address(gimli::write::Address::Constant(v), size);
    if valid && (size == 8 || v < (1u64 << (8 * size as u32))) {
        assert!(res.is_ok());
        let mut r = EndianSlice::new(&w.buf[..w.len], e);
        assert!(r.read_address(size) == Ok(v));
        assert!(r.is_empty());
    } else {
        assert!(res.is_err());
        assert!(w.len == 0);
    }
    let o: usize = kani::any();
    let mut w: ArrW<RunTimeEndian, 8> = ArrW::new(e);
    let res = w.write_offset(o, gimli::SectionId::DebugInfo, size);
    if valid && (size == 8 || (o as u64) < (1u64 << (8 * size as u32))) {
        assert!(res.is_ok());
        let mut r = EndianSlice::new(&w.buf[..w.len], e);
        assert!(r.read_sized_offset(size) == Ok(o));
    } else {
        assert!(res.is_err());
    }
    kani::cover!(valid && res.is_ok() && size == 4);
}
