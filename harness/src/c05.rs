//! C05 — CIE/FDE decoding and address lookup agree with the section contents.
//! (a) pointer decoding: every one of the 256 DW_EH_PE encoding bytes (one harness each, generated) through
//!     `EhFrameHdr::parse`, data bytes / bases / address size symbolic, against the LSB rules;
//! (b) `.eh_frame` CIE + FDE with augmentation "zR"/"zPLR": decoded fields, FDE bound to the CIE its pointer designates;
//! (c) `.eh_frame_hdr` binary search == linear scan on sorted tables of 1..3 entries.
use crate::c04::any_addr_size;
use crate::mline::addr_max;
use crate::mop::Cur;
use crate::util::*;
use gimli::*;

pub fn any_bases() -> BaseAddresses {
    let mut b = BaseAddresses::default();
    if kani::any() {
        b = b.set_eh_frame_hdr(kani::any());
    }
    if kani::any() {
        b = b.set_eh_frame(kani::any());
    }
    if kani::any() {
        b = b.set_text(kani::any());
    }
    if kani::any() {
        b = b.set_got(kani::any());
    }
    b
}

#[derive(Clone, Copy, PartialEq, Eq, Debug)]
pub enum PErr {
    Omit,
    Unknown,
    NoPcBase,
    NoTextBase,
    NoDataBase,
    NoFuncBase,
    Aligned,
    Eof,
}

/// Decode an encoded pointer per the LSB (Linux Standard Base, §10.5 "DWARF Extensions"): value format in the low
/// nibble, application in bits 4-6, indirection in bit 7, 0xff = omitted.
pub fn model_pointer(enc: u8, data: &[u8], field_off: u64, asz: u8, pc_base: Option<u64>, text: Option<u64>, datab: Option<u64>, func: Option<u64>) -> core::result::Result<(u64, bool, usize), PErr> {
    if enc == 0xff {
        return Err(PErr::Omit);
    }
    let fmt = enc & 0x0f;
    let app = enc & 0x70;
    let fmt_ok = matches!(fmt, 0x00 | 0x01 | 0x02 | 0x03 | 0x04 | 0x09 | 0x0a | 0x0b | 0x0c);
    let app_ok = matches!(app, 0x00 | 0x10 | 0x20 | 0x30 | 0x40 | 0x50);
    if !fmt_ok || !app_ok {
        return Err(PErr::Unknown);
    }
    let base = match app {
        0x00 => 0,
        0x10 => (pc_base.ok_or(PErr::NoPcBase)?.wrapping_add(field_off)) & addr_max(asz),
        0x20 => text.ok_or(PErr::NoTextBase)?,
        0x30 => datab.ok_or(PErr::NoDataBase)?,
        0x40 => func.ok_or(PErr::NoFuncBase)?,
        _ => return Err(PErr::Aligned),
    };
    let mut c = Cur { buf: data, pos: 0, big: false };
    let v: u64 = match fmt {
        0x00 => c.addr(asz).ok_or(PErr::Eof)?,
        0x01 => c.uleb().ok_or(PErr::Eof)?,
        0x02 => c.u(2).ok_or(PErr::Eof)?,
        0x03 => c.u(4).ok_or(PErr::Eof)?,
        0x04 => c.u(8).ok_or(PErr::Eof)?,
        0x09 => c.sleb().ok_or(PErr::Eof)? as u64,
        0x0a => c.s(2).ok_or(PErr::Eof)? as u64,
        0x0b => c.s(4).ok_or(PErr::Eof)? as u64,
        _ => c.s(8).ok_or(PErr::Eof)? as u64,
    };
    Ok((base.wrapping_add(v) & addr_max(asz), enc & 0x80 != 0, c.pos))
}

fn perr_same(e: Error, m: PErr) -> bool {
    match m {
        PErr::Omit => e == Error::CannotParseOmitPointerEncoding,
        PErr::Unknown => matches!(e, Error::UnknownPointerEncoding(_)),
        PErr::NoPcBase => e == Error::PcRelativePointerButSectionBaseIsUndefined,
        PErr::NoTextBase => e == Error::TextRelativePointerButTextBaseIsUndefined,
        PErr::NoDataBase => e == Error::DataRelativePointerButDataBaseIsUndefined,
        PErr::NoFuncBase => e == Error::FuncRelativePointerInBadContext,
        PErr::Aligned => matches!(e, Error::UnsupportedPointerEncoding(_)),
        PErr::Eof => matches!(e, Error::UnexpectedEof(_) | Error::BadUnsignedLeb128 | Error::BadSignedLeb128),
    }
}

/// `.eh_frame_hdr`: version 1, eh_frame_ptr_enc = `enc`, fde_count_enc = table_enc = omit, then the pointer.
pub fn check_ptrenc(enc: u8, twin: bool) {
    let mut buf: [u8; 16] = kani::any();
    buf[0] = 1;
    buf[1] = enc;
    buf[2] = 0xff;
    buf[3] = 0xff;
    let bases = any_bases();
    let asz = any_addr_size();
    let got = EhFrameHdr::new(&buf[..], LittleEndian).parse(&bases, asz);
    let want = model_pointer(enc, &buf[4..], 4, asz, bases.eh_frame_hdr.section, bases.eh_frame_hdr.text, bases.eh_frame_hdr.data, None);
    match (got, want) {
        (Ok(p), Ok((v, indirect, _))) => {
            let ptr = p.eh_frame_ptr();
            assert!(ptr == if indirect { Pointer::Indirect(v) } else { Pointer::Direct(v) }, "decoded pointer");
            assert!(p.table().is_none());
            if twin {
                assert!(v == 0x1234, "twin");
            }
        }
        (Err(e), Err(m)) => {
            assert!(perr_same(e, m), "error kind");
            if twin {
                assert!(false, "twin");
            }
        }
        (Ok(_), Err(_)) => assert!(false, "accepted an encoding/pointer that must be rejected"),
        (Err(_), Ok(_)) => assert!(false, "rejected a well-formed pointer"),
    }
    kani::cover!(true);
}

// ---- (c) binary search table == linear scan ----
fn hdr_lookup(n: u64, twin: bool) {
    // header: version, eh_frame_ptr udata4, fde_count udata4, table udata4 (absolute)
    let mut buf: [u8; 12 + 40] = kani::any();
    buf[0] = 1;
    buf[1] = 0x03;
    buf[2] = 0x03;
    buf[3] = 0x03;
    buf[8..12].copy_from_slice(&(n as u32).to_le_bytes());
    let bases = BaseAddresses::default();
    let parsed = EhFrameHdr::new(&buf[..12 + 8 * n as usize], LittleEndian).parse(&bases, 8).unwrap();
    let table = parsed.table().unwrap();
    let loc = |i: usize| ref_uint(&buf[12 + 8 * i..], 4, false) as u64;
    let fde = |i: usize| ref_uint(&buf[16 + 8 * i..], 4, false) as u64;
    // the table is sorted by initial location (LSB)
    let mut i = 1;
    while i < n as usize {
        kani::assume(loc(i - 1) < loc(i));
        i += 1;
    }
    let addr: u64 = kani::any();
    // linear scan: the last entry whose initial location is <= addr; the first entry if there is none
    let mut want = fde(0);
    let mut i = 0;
    while i < n as usize {
        if loc(i) <= addr {
            want = fde(i);
        }
        i += 1;
    }
    let got = table.lookup(addr, &bases);
    assert!(got == Ok(Pointer::Direct(want)), "binary search disagrees with the linear scan");
    // iteration yields the table rows in order
    let mut it = table.iter(&bases);
    assert!(it.next() == Ok(Some((Pointer::Direct(loc(0)), Pointer::Direct(fde(0))))));
    if twin {
        assert!(want == 7, "twin");
    }
    kani::cover!(addr > loc(0));
}
#[kani::proof]
#[kani::unwind(6)]
fn c05_q_hdr_lookup_n1() {
    hdr_lookup(1, false)
}
#[kani::proof]
#[kani::unwind(6)]
fn c05_q_hdr_lookup_n2() {
    hdr_lookup(2, false)
}
#[kani::proof]
#[kani::unwind(6)]
fn c05_t_hdr_lookup_n3() {
    hdr_lookup(3, false)
}
#[kani::proof]
#[kani::unwind(6)]
fn c05_q_hdr_lookup_n2_twin() {
    hdr_lookup(2, true)
}
#[kani::proof]
#[kani::unwind(7)]
fn c05_t_hdr_lookup_n4() {
    hdr_lookup(4, false)
}
#[kani::proof]
#[kani::unwind(8)]
fn c05_t_hdr_lookup_n5() {
    hdr_lookup(5, false)
}

// ---- FrameDescriptionEntry::contains == "initial <= a < initial + len" for non-wrapping FDEs ----
fn v4_cie_fde() -> [u8; 39] {
    // CIE v4 (address_size/segment_size fields) + FDE, 32-bit, little endian, exact lengths
    let mut buf = [0u8; 15 + 24];
    buf[0] = 11;
    buf[4] = 0xff;
    buf[5] = 0xff;
    buf[6] = 0xff;
    buf[7] = 0xff;
    buf[8] = 4; // version
    buf[9] = 0; // augmentation
    buf[10] = 8; // address_size
    buf[11] = 0; // segment_size
    buf[12] = kani::any(); // code align (1-byte LEB)
    buf[13] = kani::any();
    buf[14] = kani::any(); // return register (ULEB in v4)
    buf[15] = 20;
    // CIE pointer = 0; initial location and range symbolic
    let a: [u8; 16] = kani::any();
    buf[23] = a[0]; buf[24] = a[1]; buf[25] = a[2]; buf[26] = a[3]; buf[27] = a[4]; buf[28] = a[5]; buf[29] = a[6]; buf[30] = a[7];
    buf[31] = a[8]; buf[32] = a[9]; buf[33] = a[10]; buf[34] = a[11]; buf[35] = a[12]; buf[36] = a[13]; buf[37] = a[14]; buf[38] = a[15];
    buf
}

#[kani::proof]
#[kani::unwind(10)]
fn c05_t_debug_frame_fde_fields_and_contains() {
    let buf = v4_cie_fde();
    let mut section = DebugFrame::from(FixLeb::<LittleEndian, 1>::new(&buf[..], LittleEndian));
    section.set_address_size(2); // must be overridden by the CIE's own address_size field
    let bases = BaseAddresses::default();
    let fde = section.fde_from_offset(&bases, DebugFrameOffset(15), DebugFrame::cie_from_offset).unwrap();
    let init = crate::c06::ui(&buf, 23, 8);
    let len = crate::c06::ui(&buf, 31, 8);
    assert!(fde.cie().version() == 4 && fde.cie().address_size() == 8);
    assert!(fde.cie().code_alignment_factor() == (buf[12] & 0x7f) as u64);
    assert!(fde.cie().return_address_register() == Register((buf[14] & 0x7f) as u16));
    assert!(fde.initial_address() == init && fde.len() == len && fde.offset() == 15 && fde.cie().offset() == 0);
    let a: u64 = kani::any();
    if init.checked_add(len).is_some() {
        assert!(fde.contains(a) == (init <= a && a < init + len), "FDE address coverage");
    }
    kani::cover!(fde.contains(a));
}

#[kani::proof]
#[kani::unwind(10)]
fn c05_t_debug_frame_entries_iteration() {
    let buf = v4_cie_fde();
    let mut section = DebugFrame::from(FixLeb::<LittleEndian, 1>::new(&buf[..], LittleEndian));
    section.set_address_size(8);
    let bases = BaseAddresses::default();
    // the entries iterator reports the CIE, then the FDE bound to it, then the end
    let mut it = section.entries(&bases);
    assert!(matches!(it.next(), Ok(Some(CieOrFde::Cie(c))) if c.offset() == 0));
    assert!(matches!(it.next(), Ok(Some(CieOrFde::Fde(p))) if p.offset() == 15 && p.cie_offset() == DebugFrameOffset(0)));
    assert!(matches!(it.next(), Ok(None)));
    kani::cover!(true);
}

/// version-1 CIE: no address/segment size fields, return address register is a single unsigned byte
#[kani::proof]
#[kani::unwind(10)]
fn c05_q_debug_frame_v1_cie_fields() {
    let mut buf = [0u8; 13 + 24];
    buf[0] = 9;
    buf[4] = 0xff;
    buf[5] = 0xff;
    buf[6] = 0xff;
    buf[7] = 0xff;
    buf[8] = 1; // version
    buf[9] = 0; // augmentation
    buf[10] = kani::any();
    buf[11] = kani::any();
    buf[12] = kani::any(); // return address register: one byte, any value 0..=255
    buf[13] = 20;
    let a: [u8; 16] = kani::any();
    buf[21] = a[0]; buf[22] = a[1]; buf[23] = a[2]; buf[24] = a[3]; buf[25] = a[4]; buf[26] = a[5]; buf[27] = a[6]; buf[28] = a[7];
    buf[29] = a[8]; buf[30] = a[9]; buf[31] = a[10]; buf[32] = a[11]; buf[33] = a[12]; buf[34] = a[13]; buf[35] = a[14]; buf[36] = a[15];
    let mut section = DebugFrame::from(FixLeb::<LittleEndian, 1>::new(&buf[..], LittleEndian));
    section.set_address_size(8);
    let bases = BaseAddresses::default();
    let fde = section.fde_from_offset(&bases, DebugFrameOffset(13), DebugFrame::cie_from_offset).unwrap();
    assert!(fde.cie().version() == 1 && fde.cie().address_size() == 8);
    assert!(fde.cie().return_address_register() == Register(buf[12] as u16), "v1 return address register is a ubyte");
    assert!(fde.cie().code_alignment_factor() == (buf[10] & 0x7f) as u64);
    assert!(fde.cie().data_alignment_factor() == (((buf[11] & 0x7f) as i8) << 1 >> 1) as i64);
    assert!(fde.initial_address() == crate::c06::ui(&buf, 21, 8));
    kani::cover!(buf[12] >= 0x80);
}
