//! C17 — accelerated lookups and section plumbing agree with exhaustive scans.
use crate::mline::addr_max;
use crate::util::*;
use gimli::*;

// ---- split-DWARF package index: hash lookup == the probe sequence of DWARF 5 §7.3.5.3 over the same table ----
fn index_find<const SLOTS: usize, const LEN: usize>(twin: bool) {
    // version 5 header: version(2) pad(2) section_count(4)=0 unit_count(4) slot_count(4); ids 8*S; rows 4*S
    let mut buf: [u8; LEN] = kani::any();
    buf[0] = 5;
    buf[1] = 0;
    buf[2] = 0;
    buf[3] = 0;
    buf[4..8].copy_from_slice(&0u32.to_le_bytes());
    let units: u32 = kani::any();
    kani::assume((units as usize) < SLOTS);
    buf[8..12].copy_from_slice(&units.to_le_bytes());
    buf[12..16].copy_from_slice(&(SLOTS as u32).to_le_bytes());
    let idx = DebugCuIndex::new(&buf[..], LittleEndian).index().unwrap();
    assert!(idx.version() == 5 && idx.slot_count() == SLOTS as u32 && idx.unit_count() == units && idx.section_count() == 0);
    let id: u64 = kani::any();
    let got = idx.find(id);
    // reference: open addressing with secondary hash
    let mask = (SLOTS - 1) as u64;
    let mut h = id & mask;
    let h2 = ((id >> 32) & mask) | 1;
    let mut want: Option<u32> = None;
    let mut k = 0;
    while k < SLOTS {
        let slot_id = ref_uint(&buf[16 + 8 * h as usize..], 8, false) as u64;
        if slot_id == id {
            want = Some(ref_uint(&buf[16 + 8 * SLOTS + 4 * h as usize..], 4, false) as u32);
            break;
        }
        if slot_id == 0 {
            break;
        }
        h = (h + h2) & mask;
        k += 1;
    }
    assert!(got == want, "hash lookup disagrees with the probe sequence over the table");
    if twin {
        assert!(got.is_none(), "twin");
    }
    kani::cover!(got.is_some() && (k > 0 || SLOTS == 1));
    kani::cover!(got.is_none());
}
#[kani::proof]
#[kani::unwind(10)]
fn c17_q_index_find_slots2() {
    index_find::<2, 40>(false)
}
#[kani::proof]
#[kani::unwind(10)]
fn c17_q_index_find_slots4() {
    index_find::<4, 64>(false)
}
#[kani::proof]
#[kani::unwind(10)]
fn c17_q_index_find_slots2_twin() {
    index_find::<2, 40>(true)
}
#[kani::proof]
#[kani::unwind(12)]
fn c17_t_index_find_slots8() {
    index_find::<8, 112>(false)
}
#[kani::proof]
#[kani::unwind(10)]
fn c17_q_index_find_slots1() {
    index_find::<1, 28>(false)
}

/// per-unit section contributions: row r, column k -> offsets[(r-1)*cols + k], sizes[...]
#[kani::proof]
#[kani::unwind(10)]
fn c17_t_index_sections() {
    // v5, 2 sections (INFO=1, ABBREV=3), 2 units, 4 slots
    const OFF: usize = 16 + 32 + 16;
    let mut buf: [u8; OFF + 8 + 16 + 16] = kani::any();
    buf[0] = 5;
    buf[1] = 0;
    buf[2] = 0;
    buf[3] = 0;
    buf[4..8].copy_from_slice(&2u32.to_le_bytes());
    buf[8..12].copy_from_slice(&2u32.to_le_bytes());
    buf[12..16].copy_from_slice(&4u32.to_le_bytes());
    buf[OFF..OFF + 4].copy_from_slice(&1u32.to_le_bytes());
    buf[OFF + 4..OFF + 8].copy_from_slice(&3u32.to_le_bytes());
    let idx = DebugCuIndex::new(&buf[..], LittleEndian).index().unwrap();
    let row: u32 = kani::any();
    match idx.sections(row) {
        Err(e) => assert!((row == 0 || row > 2) && e == Error::InvalidIndexRow(row)),
        Ok(mut it) => {
            assert!(row == 1 || row == 2);
            let base = OFF + 8 + (row as usize - 1) * 8;
            let a = it.next().unwrap();
            let b = it.next().unwrap();
            assert!(it.next().is_none());
            assert!(a.section == IndexSectionId::DebugInfo && b.section == IndexSectionId::DebugAbbrev);
            assert!(a.offset == ref_uint(&buf[base..], 4, false) as u32 && b.offset == ref_uint(&buf[base + 4..], 4, false) as u32);
            assert!(a.size == ref_uint(&buf[base + 16..], 4, false) as u32 && b.size == ref_uint(&buf[base + 20..], 4, false) as u32);
        }
    }
    kani::cover!(row == 2);
}

// ---- .debug_aranges: the first tuple sits at the first multiple of the tuple size after the header (DWARF 5 §6.1.2) ----
fn aranges_padding(dwarf64: bool, asz: usize) {
    let mut buf: [u8; 64] = kani::any();
    // header size: initial length (4|12) + version 2 + debug_info_offset (4|8) + address_size 1 + segment_size 1
    let hdr = if dwarf64 { 12 + 2 + 8 + 2 } else { 4 + 2 + 4 + 2 };
    let tuple = 2 * asz;
    let first = (hdr + tuple - 1) / tuple * tuple;
    // the set ends right after its first tuple (keeps the null-tuple skipping loop at one iteration)
    let total = first + tuple;
    let mut p = 0;
    if dwarf64 {
        buf[0] = 0xff;
        buf[1] = 0xff;
        buf[2] = 0xff;
        buf[3] = 0xff;
        buf[4..12].copy_from_slice(&((total - 12) as u64).to_le_bytes());
        p = 12;
    } else {
        buf[0..4].copy_from_slice(&((total - 4) as u32).to_le_bytes());
        p = 4;
    }
    buf[p] = 2;
    buf[p + 1] = 0;
    p += 2;
    p += if dwarf64 { 8 } else { 4 }; // debug_info_offset (symbolic)
    buf[p] = asz as u8;
    buf[p + 1] = 0;
    let s = DebugAranges::new(&buf[..total], LittleEndian);
    let h = s.headers().next().unwrap().unwrap();
    assert!(h.encoding().address_size as usize == asz && h.encoding().format == if dwarf64 { Format::Dwarf64 } else { Format::Dwarf32 });
    assert!(h.length() == total - if dwarf64 { 12 } else { 4 });
    let begin = ref_uint(&buf[first..], asz, false) as u64;
    let len = ref_uint(&buf[first + asz..], asz, false) as u64;
    // (a null first tuple is skipped: constrain it away so that the first yielded entry is the first tuple)
    kani::assume(!(begin == 0 && len == 0));
    let mut es = h.entries();
    match es.next_raw() {
        Ok(Some(e)) => assert!(e.address() == begin && e.length() == len, "first tuple position"),
        _ => assert!(false, "first tuple not yielded"),
    }
    kani::cover!(true);
}
macro_rules! aranges_lanes {
    ($($name:ident: $d:expr, $a:expr;)*) => { $(
        #[kani::proof]
        #[kani::unwind(10)]
        fn $name() { aranges_padding($d, $a) }
    )* };
}
aranges_lanes!(c17_q_aranges_pad_32_a4: false, 4; c17_q_aranges_pad_32_a8: false, 8; c17_t_aranges_pad_64_a4: true, 4;
               c17_t_aranges_pad_64_a8: true, 8; c17_t_aranges_pad_32_a2: false, 2; c17_t_aranges_pad_64_a2: true, 2;
               c17_t_aranges_pad_32_a1: false, 1;);

/// range entries: end = begin + length, negative tombstones skipped, overflow reported
#[kani::proof]
#[kani::unwind(12)]
fn c17_q_aranges_entry_semantics() {
    let mut buf: [u8; 32] = kani::any();
    buf[0..4].copy_from_slice(&28u32.to_le_bytes());
    buf[4] = 2;
    buf[5] = 0;
    buf[10] = 8;
    buf[11] = 0;
    let s = DebugAranges::new(&buf[..], LittleEndian);
    let h = s.headers().next().unwrap().unwrap();
    let begin = ref_uint(&buf[16..], 8, false) as u64;
    let len = ref_uint(&buf[24..], 8, false) as u64;
    let got = h.entries().next();
    if begin == 0 && len == 0 {
        assert!(matches!(got, Ok(None)));
    } else if begin >= u64::MAX - 1 {
        assert!(matches!(got, Ok(None)), "tombstone entries are skipped");
    } else {
        match begin.checked_add(len) {
            Some(end) => assert!(matches!(&got, Ok(Some(e)) if e.range() == Range { begin, end } && e.address() == begin && e.length() == len)),
            None => assert!(got == Err(Error::AddressOverflow)),
        }
    }
    kani::cover!(matches!(got, Ok(Some(_))));
}

// ---- indexed tables return table[index] ----
#[kani::proof]
#[kani::unwind(10)]
fn c17_q_indexed_tables_values() {
    let buf: [u8; 32] = kani::any();
    let e = LittleEndian;
    let asz = crate::c04::any_addr_size();
    let (base, index): (usize, usize) = (kani::any(), kani::any());
    kani::assume(base <= 32 && index <= 32);
    let off = base + index * asz as usize;
    let got = DebugAddr::from(EndianSlice::new(&buf[..], e)).get_address(asz, DebugAddrBase(base), DebugAddrIndex(index));
    if off + asz as usize <= 32 {
        assert!(got == Ok(ref_uint(&buf[off..], asz as usize, false) as u64));
    } else {
        assert!(got.is_err());
    }
    let f = if kani::any() { Format::Dwarf64 } else { Format::Dwarf32 };
    let w = f.word_size() as usize;
    let off = base + index * w;
    let got = DebugStrOffsets::from(EndianSlice::new(&buf[..], e)).get_str_offset(f, DebugStrOffsetsBase(base), DebugStrOffsetsIndex(index));
    if off + w <= 32 {
        assert!(got == Ok(DebugStrOffset(ref_uint(&buf[off..], w, false) as usize)));
    } else {
        assert!(got.is_err());
    }
    let enc = Encoding { format: f, version: 5, address_size: asz };
    let rl = RangeLists::new(DebugRanges::new(&[], e), DebugRngLists::new(&buf[..], e));
    let got = rl.get_offset(enc, DebugRngListsBase(base), DebugRngListsIndex(index));
    if off + w <= 32 {
        let v = ref_uint(&buf[off..], w, false) as u64;
        match (base as u64).checked_add(v) {
            Some(x) => assert!(got == Ok(RangeListsOffset(x as usize))),
            None => assert!(got.is_err()),
        }
    } else {
        assert!(got.is_err());
    }
    kani::cover!(index > 1 && off + 8 <= 32);
}

// ---- every section type is loaded from the section of its own id ----
fn loaded_id<S: Section<EndianSlice<'static, LittleEndian>>>() -> SectionId {
    static IDS: [u8; 64] = {
        let mut a = [0u8; 64];
        let mut i = 0;
        while i < 64 {
            a[i] = i as u8;
            i += 1;
        }
        a
    };
    let mut seen = None;
    let s: S = S::load(|id| -> core::result::Result<_, ()> {
        seen = Some(id);
        Ok(EndianSlice::new(&IDS[..1], LittleEndian))
    })
    .unwrap();
    let _ = s;
    seen.unwrap()
}
#[kani::proof]
fn c17_q_section_ids() {
    type R = EndianSlice<'static, LittleEndian>;
    assert!(loaded_id::<DebugAbbrev<R>>() == SectionId::DebugAbbrev);
    assert!(loaded_id::<DebugAddr<R>>() == SectionId::DebugAddr);
    assert!(loaded_id::<DebugAranges<R>>() == SectionId::DebugAranges);
    assert!(loaded_id::<DebugCuIndex<R>>() == SectionId::DebugCuIndex);
    assert!(loaded_id::<DebugFrame<R>>() == SectionId::DebugFrame);
    assert!(loaded_id::<EhFrame<R>>() == SectionId::EhFrame);
    assert!(loaded_id::<EhFrameHdr<R>>() == SectionId::EhFrameHdr);
    assert!(loaded_id::<DebugInfo<R>>() == SectionId::DebugInfo);
    assert!(loaded_id::<DebugLine<R>>() == SectionId::DebugLine);
    assert!(loaded_id::<DebugLineStr<R>>() == SectionId::DebugLineStr);
    assert!(loaded_id::<DebugLoc<R>>() == SectionId::DebugLoc);
    assert!(loaded_id::<DebugLocLists<R>>() == SectionId::DebugLocLists);
    assert!(loaded_id::<DebugMacinfo<R>>() == SectionId::DebugMacinfo);
    assert!(loaded_id::<DebugMacro<R>>() == SectionId::DebugMacro);
    assert!(loaded_id::<DebugNames<R>>() == SectionId::DebugNames);
    assert!(loaded_id::<DebugPubNames<R>>() == SectionId::DebugPubNames);
    assert!(loaded_id::<DebugPubTypes<R>>() == SectionId::DebugPubTypes);
    assert!(loaded_id::<DebugRanges<R>>() == SectionId::DebugRanges);
    assert!(loaded_id::<DebugRngLists<R>>() == SectionId::DebugRngLists);
    assert!(loaded_id::<DebugStr<R>>() == SectionId::DebugStr);
    assert!(loaded_id::<DebugStrOffsets<R>>() == SectionId::DebugStrOffsets);
    assert!(loaded_id::<DebugTuIndex<R>>() == SectionId::DebugTuIndex);
    assert!(loaded_id::<DebugTypes<R>>() == SectionId::DebugTypes);
    // names are distinct and of the expected form
    assert!(SectionId::DebugPubTypes.name() == ".debug_pubtypes" && SectionId::DebugPubNames.name() == ".debug_pubnames");
    assert!(SectionId::DebugRngLists.dwo_name() == Some(".debug_rnglists.dwo") && SectionId::DebugLoc.dwo_name() == Some(".debug_loc.dwo"));
}

// ---- .debug_pubnames / .debug_pubtypes: iteration yields exactly the entries present, set by set ----
/// set 1 = {(off1,"ab"), (off2,"c")} followed by the start of a second set; unit offset and unit length symbolic
fn pub_section() -> [u8; 47] {
    let mut b = [0u8; 47];
    // set 1: length 27 = version 2 + unit_offset 4 + unit_length 4 + entries (4+3) + (4+2) + terminator 4
    b[0] = 27;
    b[4] = 2;
    let s: [u8; 8] = kani::any();
    b[6] = s[0]; b[7] = s[1]; b[8] = s[2]; b[9] = s[3];
    b[10] = s[4]; b[11] = s[5]; b[12] = s[6]; b[13] = s[7];
    // DIE offsets are concrete and non-zero (a zero offset is the terminator: a symbolic one forks the walk)
    let o: [u8; 8] = [0x44, 0x33, 0x22, 0x11, 0x01, 0x00, 0x00, 0x80];
    b[14] = o[0]; b[15] = o[1]; b[16] = o[2]; b[17] = o[3];
    b[18] = b'a'; b[19] = b'b'; b[20] = 0;
    b[21] = o[4]; b[22] = o[5]; b[23] = o[6]; b[24] = o[7];
    b[25] = b'c'; b[26] = 0;
    // terminator b[27..31] = 0
    // set 2 at 31: length 12+... = version 2 + 4 + 4 + (4+2) + 4 = 20 ... 31+4+20 = 55 > 47: use 16 = 2+4+4+(4+2)  (no terminator: ends with the set)
    b[31] = 12;
    b[35] = 2;
    let t: [u8; 4] = kani::any();
    b[37] = t[0]; b[38] = t[1]; b[39] = t[2]; b[40] = t[3];
    // unit_length of set 2: zero
    b[45] = 0;
    b
}

#[kani::proof]
#[kani::unwind(8)]
fn c17_q_pubnames_iteration() {
    let b = pub_section();
    let off1 = crate::c06::ui(&b, 14, 4);
    let off2 = crate::c06::ui(&b, 21, 4);
    kani::assume(off1 != 0 && off2 != 0);
    let u1 = crate::c06::ui(&b, 6, 4);
    // only set 1 (31 bytes) is iterated here; the two-set walk is the thorough harness below
    let s = DebugPubNames::new(&b[..31], LittleEndian);
    let mut it = s.items();
    match it.next() {
        Ok(Some(e)) => assert!(e.die_offset().0 as u64 == off1 && e.unit_header_offset().0 as u64 == u1 && e.name().slice().as_ptr() == b[18..].as_ptr() && e.name().len() == 2),
        _ => assert!(false, "first entry"),
    }
    match it.next() {
        Ok(Some(e)) => assert!(e.die_offset().0 as u64 == off2 && e.unit_header_offset().0 as u64 == u1 && e.name().len() == 1),
        _ => assert!(false, "second entry"),
    }
    assert!(matches!(it.next(), Ok(None)), "end of the set");
    assert!(matches!(it.next(), Ok(None)));
    // pubtypes uses the same machinery under its own section type
    let t = DebugPubTypes::new(&b[..31], LittleEndian);
    let mut it = t.items();
    assert!(matches!(it.next(), Ok(Some(e)) if e.die_offset().0 as u64 == off1 && e.name().len() == 2));
    kani::cover!(true);
}

/// an entry whose name is not terminated inside its set is an error, after which nothing more is yielded -
/// even though a later, well-formed set follows
#[kani::proof]
#[kani::unwind(8)]
fn c17_q_pubnames_stops_after_error() {
    let mut b = pub_section();
    // shrink set 1 so that it ends inside the first name: length = 10 + 4 + 1 = 15 -> bytes 4..19
    b[0] = 15;
    // a well-formed set 2 directly after it (at 19): version 2, offsets, one entry "d"
    b[19] = 16; b[20] = 0; b[21] = 0; b[22] = 0;
    b[23] = 2; b[24] = 0;
    b[33] = 1; b[34] = 0; b[35] = 0; b[36] = 0;
    b[37] = b'd'; b[38] = 0;
    let off1 = crate::c06::ui(&b, 14, 4);
    kani::assume(off1 != 0);
    let s = DebugPubNames::new(&b[..39], LittleEndian);
    let mut it = s.items();
    assert!(it.next().is_err(), "unterminated name must be an error");
    assert!(matches!(it.next(), Ok(None)), "iterator yields nothing after an error");
    assert!(matches!(it.next(), Ok(None)));
    kani::cover!(true);
}
