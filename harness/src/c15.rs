//! C15 — written expressions decode to the same operations (kernel obligations, via the `verif` hooks).
//! Per write-side operation kind (stack value handed to the hook, payload symbolic): the size the writer predicts equals
//! the bytes it emits, and those bytes decode - under the opcode table of the DWARF standard (mop::model_parse, which the
//! C07 harnesses prove equal to gimli's real `read::Operation::parse` for every opcode) - to the intended operation,
//! whatever shorter equivalent encoding the writer picked.  Branches land on the intended operation's offset.
use crate::c07::any_encoding;
use crate::mop::model_parse;
use crate::util::*;
use gimli::write::verif_hooks_op::{operation_size, operation_write, VerifOp};
use gimli::write::Address;
use gimli::*;

type Op<'a> = Operation<EndianSlice<'a, LittleEndian>>;

fn roundtrip(op: VerifOp, enc: Encoding, offsets: &[usize], start: usize, check: impl FnOnce(&Op<'_>) -> bool) {
    let mut w: ArrW<LittleEndian, 24> = ArrW::new(LittleEndian);
    // the operation is written at section offset `start` (zero padding before it)
    w.len = start;
    let sz = operation_size(op, enc);
    let wr = operation_write(op, &mut w, enc, offsets);
    match (sz, wr) {
        (Ok(n), Ok(())) => {
            assert!(n == w.len - start, "predicted size != bytes emitted");
            match model_parse(&w.buf[start..w.len], LittleEndian, enc) {
                Some((dec, used)) => {
                    assert!(used == n, "one operation must occupy all emitted bytes");
                    assert!(check(&dec), "decoded operation differs from the one built");
                }
                None => assert!(false, "emitted bytecode does not decode"),
            }
        }
        (Err(_), Err(_)) => {}
        _ => assert!(false, "size() and write() disagree on encodability"),
    }
    kani::cover!(wr.is_ok());
}

macro_rules! op_harness {
    ($name:ident, |$v:ident, $x:ident| $mk:expr, |$op:ident| $check:expr) => {
        #[kani::proof]
        #[kani::unwind(20)]
        fn $name() {
            let enc = any_encoding();
            let $v: u64 = kani::any();
            let $x: i64 = kani::any();
            let wop: VerifOp = $mk;
            roundtrip(wop, enc, &[], 0, |$op| $check);
        }
    };
}

op_harness!(c15_q_unsigned_constant, |v, x| VerifOp::UnsignedConstant(v), |op| matches!(op, Operation::UnsignedConstant { value } if *value == v));
op_harness!(c15_q_signed_constant, |v, x| VerifOp::SignedConstant(x), |op| matches!(op, Operation::SignedConstant { value } if *value == x));
op_harness!(c15_q_plus_constant, |v, x| VerifOp::PlusConstant(v), |op| matches!(op, Operation::PlusConstant { value } if *value == v));
op_harness!(c15_q_frame_offset, |v, x| VerifOp::FrameOffset(x), |op| matches!(op, Operation::FrameOffset { offset } if *offset == x));
op_harness!(c15_q_register, |v, x| VerifOp::Register(Register(v as u16)), |op| matches!(op, Operation::Register { register } if register.0 == v as u16));
op_harness!(c15_q_register_offset, |v, x| VerifOp::RegisterOffset(Register(v as u16), x),
    |op| matches!(op, Operation::RegisterOffset { register, offset, base_type } if register.0 == v as u16 && *offset == x && base_type.0 == 0));
op_harness!(c15_q_pick, |v, x| VerifOp::Pick(v as u8), |op| matches!(op, Operation::Pick { index } if *index == v as u8));
op_harness!(c15_q_deref_size, |v, x| VerifOp::DerefSize(x < 0, v as u8),
    |op| matches!(op, Operation::Deref { size, space, base_type } if *size == v as u8 && *space == (x < 0) && base_type.0 == 0));
op_harness!(c15_q_piece, |v, x| { kani::assume(v <= u64::MAX / 8); VerifOp::Piece(v) },
    |op| matches!(op, Operation::Piece { size_in_bits, bit_offset: None } if *size_in_bits == 8 * v));
op_harness!(c15_q_bit_piece, |v, x| VerifOp::BitPiece(v, x as u64),
    |op| matches!(op, Operation::Piece { size_in_bits, bit_offset: Some(b) } if *size_in_bits == v && *b == x as u64));
op_harness!(c15_q_wasm_local, |v, x| VerifOp::WasmLocal(v as u32), |op| matches!(op, Operation::WasmLocal { index } if *index == v as u32));
op_harness!(c15_q_wasm_global, |v, x| VerifOp::WasmGlobal(v as u32), |op| matches!(op, Operation::WasmGlobal { index } if *index == v as u32));
op_harness!(c15_q_wasm_stack, |v, x| VerifOp::WasmStack(v as u32), |op| matches!(op, Operation::WasmStack { index } if *index == v as u32));

/// DW_OP_addr: constant addresses that fit the address size round-trip; larger ones are errors
fn address_lane(asz: u8) {
    let enc = Encoding { format: Format::Dwarf32, version: 4, address_size: asz };
    let v: u64 = kani::any();
    let fits = enc.address_size == 8 || v < (1u64 << (8 * enc.address_size as u32));
    let mut w: ArrW<LittleEndian, 24> = ArrW::new(LittleEndian);
    let sz = operation_size(VerifOp::Address(Address::Constant(v)), enc);
    let wr = operation_write(VerifOp::Address(Address::Constant(v)), &mut w, enc, &[]);
    assert!(sz == Ok(1 + enc.address_size as usize));
    if fits {
        assert!(wr.is_ok() && w.len == 1 + enc.address_size as usize);
        assert!(matches!(model_parse(&w.buf[..w.len], LittleEndian, enc), Some((Operation::Address { address }, n)) if address == v && n == w.len));
    } else {
        assert!(wr.is_err(), "an address that does not fit must not be truncated");
    }
    kani::cover!(fits);
}
#[kani::proof]
#[kani::unwind(20)]
fn c15_t_address_a4() {
    address_lane(4)
}
#[kani::proof]
#[kani::unwind(20)]
fn c15_t_address_a8() {
    address_lane(8)
}
#[kani::proof]
#[kani::unwind(20)]
fn c15_t_address_a2() {
    address_lane(2)
}

/// operand-less operations and deref
#[kani::proof]
#[kani::unwind(20)]
fn c15_q_simple_and_deref() {
    let enc = any_encoding();
    roundtrip(VerifOp::Simple(DW_OP_plus), enc, &[], 0, |op| matches!(op, Operation::Plus));
    roundtrip(VerifOp::Simple(DW_OP_stack_value), enc, &[], 0, |op| matches!(op, Operation::StackValue));
    roundtrip(VerifOp::Simple(DW_OP_call_frame_cfa), enc, &[], 0, |op| matches!(op, Operation::CallFrameCFA));
    roundtrip(VerifOp::Deref(false), enc, &[], 0, |op| matches!(op, Operation::Deref { space: false, size, .. } if *size == enc.address_size));
    roundtrip(VerifOp::Deref(true), enc, &[], 0, |op| matches!(op, Operation::Deref { space: true, size, .. } if *size == enc.address_size));
}

/// branches: the operation is the `from`-th of an expression whose operations start at `offsets[i]`; the decoded
/// relative target, applied after the branch operation, is the start of operation `to` (or the end of the expression)
fn branch_lane(from: usize, to: usize) {
    let enc = Encoding { format: Format::Dwarf32, version: 4, address_size: 8 };
    // four operations of symbolic sizes starting at offset 2, plus the end offset
    let s: [u8; 4] = kani::any();
    kani::assume(s[0] <= 3 && s[1] <= 3 && s[2] <= 3 && s[3] <= 3);
    let mut offsets = [2usize; 5];
    let mut i = 0;
    while i < 4 {
        // the branch itself occupies 3 bytes
        offsets[i + 1] = offsets[i] + if i == from { 3 } else { s[i] as usize };
        i += 1;
    }
    let cond: bool = kani::any();
    let wop = if cond { VerifOp::Branch(to) } else { VerifOp::Skip(to) };
    let start = offsets[from];
    let want = offsets[to] as i64 - (start as i64 + 3);
    roundtrip(wop, enc, &offsets[..], start, |op| match op {
        Operation::Bra { target } => cond && *target as i64 == want,
        Operation::Skip { target } => !cond && *target as i64 == want,
        _ => false,
    });
}
#[kani::proof]
#[kani::unwind(20)]
fn c15_t_branch_forward() {
    branch_lane(1, 3)
}
#[kani::proof]
#[kani::unwind(20)]
fn c15_t_branch_backward() {
    branch_lane(2, 0)
}
#[kani::proof]
#[kani::unwind(20)]
fn c15_t_branch_to_end() {
    branch_lane(0, 4)
}
#[kani::proof]
#[kani::unwind(20)]
fn c15_t_branch_self() {
    branch_lane(3, 3)
}
