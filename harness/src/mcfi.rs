//! Skeleton builder and reference interpreter for call frame information, written from DWARF 5 §6.4 and the
//! LSB .eh_frame description.  A skeleton fixes the opcode bytes and register numbers (control); every other
//! operand byte, the alignment factors and the FDE address range stay symbolic.
use crate::util::*;

#[derive(Clone, Copy, Debug, PartialEq, Eq)]
pub enum CI {
    Nop,
    AdvanceLoc(u8),
    AdvanceLoc1,
    AdvanceLoc2,
    AdvanceLoc4,
    SetLoc,
    Offset(u8),
    OffsetExt(u16),
    OffsetExtSf(u16),
    Restore(u8),
    RestoreExt(u16),
    Undefined(u16),
    SameValue(u16),
    Register(u16, u16),
    RememberState,
    RestoreState,
    DefCfa(u16),
    DefCfaSf(u16),
    DefCfaRegister(u16),
    DefCfaOffset,
    DefCfaOffsetSf,
    DefCfaExpr(u8),
    Expr(u16, u8),
    ValExpr(u16, u8),
    ValOffset(u16),
    ValOffsetSf(u16),
    ArgsSize,
    NegateRaState,
    Unknown(u8),
}

// ------------------------------------------------------------------------------------------------
// reference interpreter
// ------------------------------------------------------------------------------------------------
#[derive(Clone, Copy, Debug, PartialEq, Eq)]
pub enum MRule {
    Undefined,
    SameValue,
    Offset(i64),
    ValOffset(i64),
    Register(u16),
    Expression(usize, usize),
    ValExpression(usize, usize),
    Constant(u64),
}

#[derive(Clone, Copy, Debug, PartialEq, Eq)]
pub enum MCfa {
    RegOff(u16, i64),
    Expr(usize, usize),
}

pub const MAXR: usize = 4;

#[derive(Clone, Copy, Debug, PartialEq, Eq)]
pub struct MState {
    pub cfa: MCfa,
    pub rules: [Option<(u16, MRule)>; MAXR],
    pub args_size: u64,
}

#[derive(Clone, Copy, Debug, PartialEq, Eq)]
pub enum MErr {
    InvalidContext,
    PopWithEmptyStack,
    StackFull,
    TooManyRules,
    SetLocBackwards,
    AddressOverflow,
    UnknownInstruction,
    /// factoring leaves the 64-bit range: not a well-formed program
    OutOfModel,
}

impl MState {
    pub fn new() -> MState {
        MState { cfa: MCfa::RegOff(0, 0), rules: [None; MAXR], args_size: 0 }
    }
    pub fn get(&self, r: u16) -> Option<MRule> {
        let mut i = 0;
        while i < MAXR {
            if let Some((x, rule)) = self.rules[i] {
                if x == r {
                    return Some(rule);
                }
            }
            i += 1;
        }
        None
    }
    pub fn count(&self) -> usize {
        let mut n = 0;
        let mut i = 0;
        while i < MAXR {
            if self.rules[i].is_some() {
                n += 1;
            }
            i += 1;
        }
        n
    }
    /// `cap` = capacity of the implementation's rule storage
    pub fn set(&mut self, r: u16, rule: MRule, cap: usize) -> core::result::Result<(), MErr> {
        let mut i = 0;
        while i < MAXR {
            if let Some((x, _)) = self.rules[i] {
                if x == r {
                    self.rules[i] = Some((r, rule));
                    return Ok(());
                }
            }
            i += 1;
        }
        if self.count() >= cap {
            return Err(MErr::TooManyRules);
        }
        i = 0;
        while i < MAXR {
            if self.rules[i].is_none() {
                self.rules[i] = Some((r, rule));
                return Ok(());
            }
            i += 1;
        }
        Err(MErr::TooManyRules)
    }
    pub fn clear(&mut self, r: u16) {
        let mut i = 0;
        while i < MAXR {
            if let Some((x, _)) = self.rules[i] {
                if x == r {
                    self.rules[i] = None;
                }
            }
            i += 1;
        }
    }
}

pub struct Machine {
    pub asz: usize,
    pub code_align: u64,
    pub data_align: i64,
    pub rule_cap: usize,
    pub stack_cap: usize,
    pub aarch64: bool,
    pub state: MState,
    pub saved: [Option<MState>; 3],
    pub depth: usize,
    /// rules in force after the CIE's initial instructions (None while executing them)
    pub initial: Option<MState>,
    /// rows the implementation's stack holds besides the saved ones (1 current + 1 if the initial rules need a row)
    pub base_rows: usize,
}

fn fact(x: i64, a: i64) -> core::result::Result<i64, MErr> {
    // factored offset * data alignment factor; leaving the 64-bit range = not a well-formed program
    x.checked_mul(a).ok_or(MErr::OutOfModel)
}
fn ufact(x: u64, a: i64) -> core::result::Result<i64, MErr> {
    if x > i64::MAX as u64 {
        return Err(MErr::OutOfModel);
    }
    fact(x as i64, a)
}

impl Machine {
    /// Execute one instruction.  `a` = its unsigned operand (ULEB128 / fixed-size / address, or the section
    /// offset of its expression block), `sv` = its signed operand.  Ok(Some(end)) = row completed with this end address.
    pub fn exec(&mut self, ins: CI, a: u64, sv: i64, start: u64) -> core::result::Result<Option<u64>, MErr> {
        let amax: u128 = if self.asz == 8 { u64::MAX as u128 } else { (1u128 << (8 * self.asz)) - 1 };
        let ca = self.code_align;
        let adv = |delta: u64| -> core::result::Result<Option<u64>, MErr> {
            let Some(d) = delta.checked_mul(ca) else { return Err(MErr::OutOfModel) };
            let e = start as u128 + d as u128;
            if e > amax {
                return Err(MErr::AddressOverflow);
            }
            Ok(Some(e as u64))
        };
        let da = self.data_align;
        let cap = self.rule_cap;
        match ins {
            CI::Nop => {}
            CI::AdvanceLoc(d) => return adv((d & 0x3f) as u64),
            CI::AdvanceLoc1 | CI::AdvanceLoc2 | CI::AdvanceLoc4 => return adv(a),
            CI::SetLoc => {
                if a < start {
                    return Err(MErr::SetLocBackwards);
                }
                return Ok(Some(a));
            }
            CI::Offset(r) => self.state.set((r & 0x3f) as u16, MRule::Offset(ufact(a, da)?), cap)?,
            CI::OffsetExt(r) => self.state.set(r, MRule::Offset(ufact(a, da)?), cap)?,
            CI::OffsetExtSf(r) => self.state.set(r, MRule::Offset(fact(sv, da)?), cap)?,
            CI::ValOffset(r) => self.state.set(r, MRule::ValOffset(ufact(a, da)?), cap)?,
            CI::ValOffsetSf(r) => self.state.set(r, MRule::ValOffset(fact(sv, da)?), cap)?,
            CI::Restore(_) | CI::RestoreExt(_) => {
                let r = match ins {
                    CI::Restore(r) => (r & 0x3f) as u16,
                    CI::RestoreExt(r) => r,
                    _ => 0,
                };
                match self.initial {
                    None => return Err(MErr::InvalidContext),
                    Some(init) => match init.get(r) {
                        None => self.state.clear(r),
                        Some(rule) => self.state.set(r, rule, cap)?,
                    },
                }
            }
            CI::Undefined(r) => self.state.set(r, MRule::Undefined, cap)?,
            CI::SameValue(r) => self.state.set(r, MRule::SameValue, cap)?,
            CI::Register(r, s) => self.state.set(r, MRule::Register(s), cap)?,
            CI::RememberState => {
                if self.base_rows + self.depth + 1 > self.stack_cap {
                    return Err(MErr::StackFull);
                }
                self.saved[self.depth] = Some(self.state);
                self.depth += 1;
            }
            CI::RestoreState => {
                if self.depth == 0 {
                    return Err(MErr::PopWithEmptyStack);
                }
                self.depth -= 1;
                self.state = self.saved[self.depth].unwrap();
            }
            CI::DefCfa(r) => self.state.cfa = MCfa::RegOff(r, a as i64),
            CI::DefCfaSf(r) => self.state.cfa = MCfa::RegOff(r, fact(sv, da)?),
            CI::DefCfaRegister(r) => match self.state.cfa {
                MCfa::RegOff(_, o) => self.state.cfa = MCfa::RegOff(r, o),
                _ => return Err(MErr::InvalidContext),
            },
            CI::DefCfaOffset => match self.state.cfa {
                MCfa::RegOff(r, _) => self.state.cfa = MCfa::RegOff(r, a as i64),
                _ => return Err(MErr::InvalidContext),
            },
            CI::DefCfaOffsetSf => match self.state.cfa {
                MCfa::RegOff(r, _) => self.state.cfa = MCfa::RegOff(r, fact(sv, da)?),
                _ => return Err(MErr::InvalidContext),
            },
            CI::DefCfaExpr(len) => self.state.cfa = MCfa::Expr(a as usize, len as usize),
            CI::Expr(r, len) => self.state.set(r, MRule::Expression(a as usize, len as usize), cap)?,
            CI::ValExpr(r, len) => self.state.set(r, MRule::ValExpression(a as usize, len as usize), cap)?,
            CI::ArgsSize => self.state.args_size = a,
            CI::NegateRaState => {
                if !self.aarch64 {
                    return Err(MErr::UnknownInstruction);
                }
                let v = match self.state.get(34) {
                    None => 0,
                    Some(MRule::Constant(v)) => v,
                    _ => return Err(MErr::InvalidContext),
                };
                self.state.set(34, MRule::Constant(v ^ 1), cap)?;
            }
            CI::Unknown(_) => return Err(MErr::UnknownInstruction),
        }
        Ok(None)
    }
}

/// A model run over one CIE + one FDE (first row only), driven by generated straight-line code.
pub struct Run {
    pub m: Machine,
    pub failed: Option<MErr>,
    pub cstart: u64,
    pub end: Option<u64>,
}

impl Run {
    pub fn new(asz: usize, code_align: u64, data_align: i64, rule_cap: usize, stack_cap: usize, aarch64: bool) -> Run {
        Run {
            m: Machine {
                asz, code_align, data_align, rule_cap, stack_cap, aarch64,
                state: MState::new(), saved: [None; 3], depth: 0, initial: None, base_rows: 1,
            },
            failed: None,
            cstart: 0,
            end: None,
        }
    }
    /// one CIE initial instruction (rows completed inside the CIE are discarded)
    pub fn cie(&mut self, ins: CI, a: u64, sv: i64) {
        if self.failed.is_some() {
            return;
        }
        match self.m.exec(ins, a, sv, self.cstart) {
            Ok(Some(e)) => self.cstart = e,
            Ok(None) => {}
            Err(e) => self.failed = Some(e),
        }
    }
    pub fn end_cie(&mut self) {
        if self.failed.is_some() {
            return;
        }
        if self.m.state.count() > 1 {
            // several initial rules are kept in an extra row of the implementation's stack
            if 1 + self.m.depth + 1 > self.m.stack_cap {
                self.failed = Some(MErr::StackFull);
            }
            self.m.base_rows = 2;
        }
        self.m.initial = Some(self.m.state);
    }
    /// one FDE instruction (ignored once the first row is complete)
    pub fn fde(&mut self, ins: CI, a: u64, sv: i64, init_loc: u64) {
        if self.failed.is_some() || self.end.is_some() {
            return;
        }
        match self.m.exec(ins, a, sv, init_loc) {
            Ok(Some(e)) => self.end = Some(e),
            Ok(None) => {}
            Err(e) => self.failed = Some(e),
        }
    }
    /// expected first row (start, end) or the expected error
    pub fn finish(&self, init_loc: u64, range: u64) -> core::result::Result<(u64, u64), MErr> {
        match self.failed {
            Some(e) => Err(e),
            None => Ok((init_loc, self.end.unwrap_or(init_loc.wrapping_add(range)))),
        }
    }
}
