//! Reference line-number state machine, written from DWARF 5 §6.2.2 and §6.2.5 with mathematical (u128/i128)
//! arithmetic, plus gimli's documented tombstone rule for DW_LNE_set_address (an address lower than the current
//! one, or >= the tombstone values of the address size, starts a "dead" sequence whose advances are ignored).
#[derive(Clone, Copy, Debug, PartialEq, Eq)]
pub struct MHdr {
    pub min_len: u8,
    pub max_ops: u8,
    pub default_is_stmt: bool,
    pub line_base: i8,
    pub line_range: u8,
    pub opcode_base: u8,
    pub addr_size: u8,
}

#[derive(Clone, Copy, Debug, PartialEq, Eq)]
pub struct MRow {
    pub tomb: bool,
    pub address: u64,
    pub op_index: u64,
    pub file: u64,
    pub line: u64,
    pub column: u64,
    pub is_stmt: bool,
    pub basic_block: bool,
    pub end_sequence: bool,
    pub prologue_end: bool,
    pub epilogue_begin: bool,
    pub isa: u64,
    pub discriminator: u64,
}

#[derive(Clone, Copy, Debug, PartialEq, Eq)]
pub enum MIns {
    Special(u8),
    Copy,
    AdvancePc(u64),
    AdvanceLine(i64),
    SetFile(u64),
    SetColumn(u64),
    NegateStatement,
    SetBasicBlock,
    ConstAddPc,
    FixedAddPc(u16),
    SetPrologueEnd,
    SetEpilogueBegin,
    SetIsa(u64),
    EndSequence,
    SetAddress(u64),
    SetDiscriminator(u64),
    Unknown,
}

#[derive(Clone, Copy, Debug, PartialEq, Eq)]
pub enum MOut {
    /// executed; `bool` = a row is appended
    Ok(bool),
    /// the address register would exceed the address size
    AddressOverflow,
    /// intermediate quantities leave the 64-bit range (not a well-formed program): only the any-input
    /// clause (addresses never decrease, never exceed the address size) is required
    OutOfModel,
}

pub fn addr_max(size: u8) -> u64 {
    match size {
        1 => 0xff,
        2 => 0xffff,
        4 => 0xffff_ffff,
        _ => !0,
    }
}

impl MRow {
    pub fn initial(h: &MHdr) -> MRow {
        MRow {
            tomb: false,
            address: 0,
            op_index: 0,
            file: 1,
            line: 1,
            column: 0,
            is_stmt: h.default_is_stmt,
            basic_block: false,
            end_sequence: false,
            prologue_end: false,
            epilogue_begin: false,
            isa: 0,
            discriminator: 0,
        }
    }

    fn advance(&mut self, h: &MHdr, operation_advance: u64) -> MOut {
        if self.tomb {
            return MOut::Ok(false);
        }
        // §6.2.5.1: address += min_inst_len * ((op_index + operation advance) / max_ops)
        //           op_index = (op_index + operation advance) % max_ops
        let total = self.op_index as u128 + operation_advance as u128;
        let max_ops = h.max_ops as u128;
        let adv = h.min_len as u128 * (total / max_ops);
        if total > u64::MAX as u128 || adv > u64::MAX as u128 {
            return MOut::OutOfModel;
        }
        let na = self.address as u128 + adv;
        if na > addr_max(h.addr_size) as u128 {
            return MOut::AddressOverflow;
        }
        self.address = na as u64;
        self.op_index = (total % max_ops) as u64;
        MOut::Ok(false)
    }

    fn advance_line(&mut self, inc: i64) -> MOut {
        let nl = self.line as i128 + inc as i128;
        if nl > u64::MAX as i128 {
            return MOut::OutOfModel;
        }
        // a line register driven below zero is clamped to 0 ("no line")
        self.line = if nl < 0 { 0 } else { nl as u64 };
        MOut::Ok(false)
    }

    pub fn step(&mut self, h: &MHdr, ins: MIns) -> MOut {
        match ins {
            MIns::Special(op) => {
                let adjusted = op - h.opcode_base;
                let line_inc = h.line_base as i64 + (adjusted % h.line_range) as i64;
                let op_adv = (adjusted / h.line_range) as u64;
                let mut t = *self;
                match t.advance_line(line_inc) {
                    MOut::Ok(_) => {}
                    o => return o,
                }
                match t.advance(h, op_adv) {
                    MOut::Ok(_) => {}
                    o => return o,
                }
                *self = t;
                MOut::Ok(true)
            }
            MIns::Copy => MOut::Ok(true),
            MIns::AdvancePc(a) => self.advance(h, a),
            MIns::AdvanceLine(i) => self.advance_line(i),
            MIns::SetFile(f) => {
                self.file = f;
                MOut::Ok(false)
            }
            MIns::SetColumn(c) => {
                self.column = c;
                MOut::Ok(false)
            }
            MIns::NegateStatement => {
                self.is_stmt = !self.is_stmt;
                MOut::Ok(false)
            }
            MIns::SetBasicBlock => {
                self.basic_block = true;
                MOut::Ok(false)
            }
            MIns::ConstAddPc => {
                let adjusted = 255 - h.opcode_base;
                self.advance(h, (adjusted / h.line_range) as u64)
            }
            MIns::FixedAddPc(x) => {
                if self.tomb {
                    return MOut::Ok(false);
                }
                let na = self.address as u128 + x as u128;
                if na > addr_max(h.addr_size) as u128 {
                    return MOut::AddressOverflow;
                }
                self.address = na as u64;
                self.op_index = 0;
                MOut::Ok(false)
            }
            MIns::SetPrologueEnd => {
                self.prologue_end = true;
                MOut::Ok(false)
            }
            MIns::SetEpilogueBegin => {
                self.epilogue_begin = true;
                MOut::Ok(false)
            }
            MIns::SetIsa(x) => {
                self.isa = x;
                MOut::Ok(false)
            }
            MIns::EndSequence => {
                self.end_sequence = true;
                MOut::Ok(true)
            }
            MIns::SetAddress(a) => {
                self.tomb = a < self.address || a >= addr_max(h.addr_size) - 1;
                if !self.tomb {
                    self.address = a;
                    self.op_index = 0;
                }
                MOut::Ok(false)
            }
            MIns::SetDiscriminator(d) => {
                self.discriminator = d;
                MOut::Ok(false)
            }
            MIns::Unknown => MOut::Ok(false),
        }
    }

    /// What happens to the registers after a row has been appended (§6.2.5.1 steps 4-7, §6.2.5.3).
    pub fn after_row(&mut self, h: &MHdr) {
        if self.end_sequence {
            *self = MRow::initial(h);
        } else {
            self.discriminator = 0;
            self.basic_block = false;
            self.prologue_end = false;
            self.epilogue_begin = false;
        }
    }
}
