//! Reference model of DWARF typed/generic stack values (DWARF 5 §2.5.1.4), written from the standard and
//! gimli's *documented* API contracts — not from its implementation.  Wide (i128/u128) arithmetic, explicit
//! wrap to the type width.  `None` = the operation is an error (any error).
use gimli::{Value, ValueType};

#[derive(Clone, Copy, PartialEq, Eq, Debug)]
pub enum T {
    Generic,
    I8,
    U8,
    I16,
    U16,
    I32,
    U32,
    I64,
    U64,
    F32,
    F64,
}

/// A model value: type + raw payload bits (zero-extended into 64 bits).
#[derive(Clone, Copy, PartialEq, Eq, Debug)]
pub struct V {
    pub t: T,
    pub bits: u64,
}

pub const ALL_T: [T; 11] = [T::Generic, T::I8, T::U8, T::I16, T::U16, T::I32, T::U32, T::I64, T::U64, T::F32, T::F64];

pub fn mask_of(address_size: u8) -> u64 {
    match address_size {
        1 => 0xff,
        2 => 0xffff,
        4 => 0xffff_ffff,
        _ => !0,
    }
}

impl T {
    pub fn width(self, mask: u64) -> u32 {
        match self {
            T::Generic => 64 - mask.leading_zeros(),
            T::I8 | T::U8 => 8,
            T::I16 | T::U16 => 16,
            T::I32 | T::U32 | T::F32 => 32,
            T::I64 | T::U64 | T::F64 => 64,
        }
    }
    pub fn is_float(self) -> bool {
        matches!(self, T::F32 | T::F64)
    }
    pub fn is_signed_int(self) -> bool {
        matches!(self, T::I8 | T::I16 | T::I32 | T::I64)
    }
    pub fn is_unsigned_int(self) -> bool {
        matches!(self, T::U8 | T::U16 | T::U32 | T::U64)
    }
    pub fn to_gimli(self) -> ValueType {
        match self {
            T::Generic => ValueType::Generic,
            T::I8 => ValueType::I8,
            T::U8 => ValueType::U8,
            T::I16 => ValueType::I16,
            T::U16 => ValueType::U16,
            T::I32 => ValueType::I32,
            T::U32 => ValueType::U32,
            T::I64 => ValueType::I64,
            T::U64 => ValueType::U64,
            T::F32 => ValueType::F32,
            T::F64 => ValueType::F64,
        }
    }
}

fn wmask(w: u32) -> u128 {
    if w >= 128 {
        !0
    } else {
        (1u128 << w) - 1
    }
}

impl V {
    pub fn new(t: T, bits: u64) -> V {
        V { t, bits }
    }
    /// unsigned interpretation of the low `width` bits
    pub fn u(self, mask: u64) -> u128 {
        (self.bits as u128) & wmask(self.t.width(mask))
    }
    /// signed (two's complement) interpretation of the low `width` bits
    pub fn s(self, mask: u64) -> i128 {
        let w = self.t.width(mask);
        let u = self.u(mask);
        if w == 0 {
            return 0;
        }
        if u >> (w - 1) & 1 == 1 {
            (u as i128) - (1i128 << w)
        } else {
            u as i128
        }
    }
    /// numeric value under the type's own signedness (generic: caller chooses)
    pub fn n(self, mask: u64, generic_signed: bool) -> i128 {
        if self.t.is_signed_int() || (self.t == T::Generic && generic_signed) {
            self.s(mask)
        } else {
            self.u(mask) as i128
        }
    }
    fn wrap(t: T, n: i128, mask: u64) -> V {
        V { t, bits: ((n as u128) & wmask(t.width(mask))) as u64 }
    }
    pub fn to_gimli(self) -> Value {
        match self.t {
            T::Generic => Value::Generic(self.bits),
            T::I8 => Value::I8(self.bits as i8),
            T::U8 => Value::U8(self.bits as u8),
            T::I16 => Value::I16(self.bits as i16),
            T::U16 => Value::U16(self.bits as u16),
            T::I32 => Value::I32(self.bits as i32),
            T::U32 => Value::U32(self.bits as u32),
            T::I64 => Value::I64(self.bits as i64),
            T::U64 => Value::U64(self.bits),
            T::F32 => Value::F32(f32::from_bits(self.bits as u32)),
            T::F64 => Value::F64(f64::from_bits(self.bits)),
        }
    }
    pub fn from_gimli(v: Value) -> V {
        match v {
            Value::Generic(x) => V::new(T::Generic, x),
            Value::I8(x) => V::new(T::I8, x as u8 as u64),
            Value::U8(x) => V::new(T::U8, x as u64),
            Value::I16(x) => V::new(T::I16, x as u16 as u64),
            Value::U16(x) => V::new(T::U16, x as u64),
            Value::I32(x) => V::new(T::I32, x as u32 as u64),
            Value::U32(x) => V::new(T::U32, x as u64),
            Value::I64(x) => V::new(T::I64, x as u64),
            Value::U64(x) => V::new(T::U64, x),
            Value::F32(x) => V::new(T::F32, x.to_bits() as u64),
            Value::F64(x) => V::new(T::F64, x.to_bits()),
        }
    }
    /// Equality the property asks for: same type, payload equal in the type's width
    /// (generic values are compared modulo the address size).
    pub fn same(self, other: V, mask: u64) -> bool {
        self.t == other.t && self.u(mask) == other.u(mask)
    }
}

#[derive(Clone, Copy, PartialEq, Eq, Debug)]
pub enum Op {
    Add,
    Sub,
    Mul,
    Div,
    Rem,
    And,
    Or,
    Xor,
    Shl,
    Shr,
    Shra,
    Eq,
    Ge,
    Gt,
    Le,
    Lt,
    Ne,
}

fn fbin32(op: Op, a: f32, b: f32) -> Option<u64> {
    Some(match op {
        Op::Add => (a + b).to_bits() as u64,
        Op::Sub => (a - b).to_bits() as u64,
        Op::Mul => (a * b).to_bits() as u64,
        Op::Div => (a / b).to_bits() as u64,
        _ => return None,
    })
}
fn fbin64(op: Op, a: f64, b: f64) -> Option<u64> {
    Some(match op {
        Op::Add => (a + b).to_bits(),
        Op::Sub => (a - b).to_bits(),
        Op::Mul => (a * b).to_bits(),
        Op::Div => (a / b).to_bits(),
        _ => return None,
    })
}

/// shift count: any integral type; negative => error; generic taken modulo the address size
fn shift_count(b: V, mask: u64) -> Option<u128> {
    if b.t.is_float() {
        return None;
    }
    let n = b.n(mask, false);
    if n < 0 {
        None
    } else {
        Some(n as u128)
    }
}

/// Truncating division / remainder in the lane's signedness, computed in the narrowest native
/// arithmetic that cannot overflow (i64 for lanes <= 32 bits; 64-bit lanes use wrapping i64 / u64).
fn narrow_divrem(a: V, b: V, mask: u64, generic_signed: bool, div: bool) -> Option<V> {
    let w = a.t.width(mask);
    let signed = a.t.is_signed_int() || (a.t == T::Generic && generic_signed);
    if b.u(mask) == 0 {
        return None;
    }
    let bits: u64 = if signed {
        let (x, y) = (a.s(mask) as i64, b.s(mask) as i64);
        (if div { x.wrapping_div(y) } else { x.wrapping_rem(y) }) as u64
    } else {
        let (x, y) = (a.u(mask) as u64, b.u(mask) as u64);
        if div { x / y } else { x % y }
    };
    Some(V { t: a.t, bits: ((bits as u128) & wmask(w)) as u64 })
}

pub fn binop(op: Op, a: V, b: V, mask: u64) -> Option<V> {
    let w = a.t.width(mask);
    match op {
        Op::Shl | Op::Shr | Op::Shra => {
            let c = shift_count(b, mask)?;
            if a.t.is_float() {
                return None;
            }
            match op {
                Op::Shl => Some(if c >= w as u128 { V::wrap(a.t, 0, mask) } else { V::wrap(a.t, (a.u(mask) << (c as u32)) as i128, mask) }),
                Op::Shr => {
                    // logical: unsigned types and generic (as unsigned); signed typed values unsupported (documented)
                    if a.t.is_signed_int() {
                        return None;
                    }
                    Some(if c >= w as u128 { V::wrap(a.t, 0, mask) } else { V::wrap(a.t, (a.u(mask) >> (c as u32)) as i128, mask) })
                }
                _ => {
                    // arithmetic: signed types and generic (as signed); unsigned typed values unsupported (documented)
                    if a.t.is_unsigned_int() {
                        return None;
                    }
                    let s = a.s(mask);
                    Some(if c >= w as u128 { V::wrap(a.t, if s < 0 { -1 } else { 0 }, mask) } else { V::wrap(a.t, s >> (c as u32), mask) })
                }
            }
        }
        _ => {
            if a.t != b.t {
                return None;
            }
            if a.t.is_float() {
                let r = match op {
                    Op::Add | Op::Sub | Op::Mul | Op::Div => {
                        let bits = if a.t == T::F32 {
                            fbin32(op, f32::from_bits(a.bits as u32), f32::from_bits(b.bits as u32))?
                        } else {
                            fbin64(op, f64::from_bits(a.bits), f64::from_bits(b.bits))?
                        };
                        return Some(V::new(a.t, bits));
                    }
                    Op::Rem | Op::And | Op::Or | Op::Xor => return None,
                    _ => {
                        if a.t == T::F32 {
                            let (x, y) = (f32::from_bits(a.bits as u32), f32::from_bits(b.bits as u32));
                            match op {
                                Op::Eq => x == y,
                                Op::Ge => x >= y,
                                Op::Gt => x > y,
                                Op::Le => x <= y,
                                Op::Lt => x < y,
                                _ => x != y,
                            }
                        } else {
                            let (x, y) = (f64::from_bits(a.bits), f64::from_bits(b.bits));
                            match op {
                                Op::Eq => x == y,
                                Op::Ge => x >= y,
                                Op::Gt => x > y,
                                Op::Le => x <= y,
                                Op::Lt => x < y,
                                _ => x != y,
                            }
                        }
                    }
                };
                return Some(V::new(T::Generic, r as u64));
            }
            match op {
                Op::Add => Some(V::wrap(a.t, a.u(mask) as i128 + b.u(mask) as i128, mask)),
                Op::Sub => Some(V::wrap(a.t, a.u(mask) as i128 - b.u(mask) as i128, mask)),
                Op::Mul => {
                    // product of the residues, wrapped to the lane width (same residue class as the signed product)
                    let p = (a.u(mask) as u64).wrapping_mul(b.u(mask) as u64);
                    Some(V { t: a.t, bits: ((p as u128) & wmask(w)) as u64 })
                }
                Op::Div => {
                    // DW_OP_div: signed division for generic; typed values divide in their own signedness
                    narrow_divrem(a, b, mask, true, true)
                }
                Op::Rem => {
                    // DW_OP_mod: unsigned modulus for generic; typed values in their own signedness
                    narrow_divrem(a, b, mask, false, false)
                }
                Op::And => Some(V::wrap(a.t, (a.u(mask) & b.u(mask)) as i128, mask)),
                Op::Or => Some(V::wrap(a.t, (a.u(mask) | b.u(mask)) as i128, mask)),
                Op::Xor => Some(V::wrap(a.t, (a.u(mask) ^ b.u(mask)) as i128, mask)),
                _ => {
                    // relational operators: signed comparison for generic (DWARF 5 §2.5.1.5)
                    let (x, y) = (a.n(mask, true), b.n(mask, true));
                    let r = match op {
                        Op::Eq => x == y,
                        Op::Ge => x >= y,
                        Op::Gt => x > y,
                        Op::Le => x <= y,
                        Op::Lt => x < y,
                        _ => x != y,
                    };
                    Some(V::new(T::Generic, r as u64))
                }
            }
        }
    }
}

#[derive(Clone, Copy, PartialEq, Eq, Debug)]
pub enum Un {
    Abs,
    Neg,
    Not,
}

pub fn unop(op: Un, a: V, mask: u64) -> Option<V> {
    match op {
        Un::Abs => {
            if a.t.is_float() {
                // sign-bit clear unless NaN handling: |x| = if x < 0 { -x } else { x }
                return Some(if a.t == T::F32 {
                    let x = f32::from_bits(a.bits as u32);
                    V::new(a.t, (if x < 0.0 { -x } else { x }).to_bits() as u64)
                } else {
                    let x = f64::from_bits(a.bits);
                    V::new(a.t, (if x < 0.0 { -x } else { x }).to_bits())
                });
            }
            if a.t.is_unsigned_int() {
                return Some(a);
            }
            let s = a.s(mask);
            Some(V::wrap(a.t, if s < 0 { -s } else { s }, mask))
        }
        Un::Neg => {
            if a.t.is_float() {
                return Some(if a.t == T::F32 {
                    V::new(a.t, (-f32::from_bits(a.bits as u32)).to_bits() as u64)
                } else {
                    V::new(a.t, (-f64::from_bits(a.bits)).to_bits())
                });
            }
            if a.t.is_unsigned_int() {
                return None; // documented: unsupported
            }
            Some(V::wrap(a.t, -a.s(mask), mask))
        }
        Un::Not => {
            if a.t.is_float() {
                return None;
            }
            Some(V::wrap(a.t, !(a.u(mask) as i128), mask))
        }
    }
}

/// DW_OP_convert between integral types (float conversions are not modelled: `None`-typed sentinel handled by caller)
pub fn convert_int(a: V, to: T, mask: u64) -> Option<V> {
    if a.t.is_float() || to.is_float() {
        return None;
    }
    // integral -> integral: value preserved modulo the target width; source read in its own signedness
    // (generic source is address-sized unsigned)
    Some(V::wrap(to, a.n(mask, false), mask))
}

/// DW_OP_reinterpret: sizes must match, bits preserved
pub fn reinterpret(a: V, to: T, mask: u64) -> Option<V> {
    if a.t.width(mask) != to.width(mask) {
        return None;
    }
    Some(V { t: to, bits: (a.u(mask)) as u64 })
}
