//! C18 — relocation is transparent on both the reading and the writing side.
//! Reader: `RelocateReader` with a symbolic relocation (offset, addend) vs the plain reader over pre-patched bytes,
//! for the three relocatable primitives; and per attribute form / expression operation / list entry, the set of
//! offsets that pass through the relocatable primitives equals the standard's relocatable fields - nothing else.
//! Writer: a recording `RelocateWriter`; applying the recorded relocations gives the plain writer's bytes.
use crate::c07::any_encoding;
use crate::mattr::legacy_offset_attr;
use crate::util::*;
use core::cell::Cell;
use gimli::write::{Address, RelocateWriter, Relocation, RelocationTarget, Writer};
use gimli::*;

// ------------------------------------------------------------------------------------------------
// reader side
// ------------------------------------------------------------------------------------------------
#[derive(Debug, Clone, Copy)]
struct AddAt {
    at: usize,
    delta: u64,
}
impl Relocate<usize> for AddAt {
    fn relocate_address(&self, offset: usize, value: u64) -> gimli::Result<u64> {
        Ok(if offset == self.at { value.wrapping_add(self.delta) } else { value })
    }
    fn relocate_offset(&self, offset: usize, value: usize) -> gimli::Result<usize> {
        Ok(if offset == self.at { value.wrapping_add(self.delta as usize) } else { value })
    }
}

/// kind 0: read_address(size), 1: read_offset(format), 2: read_sized_offset(size)
fn reloc_primitive(kind: u8) {
    let buf: [u8; 16] = kani::any();
    let pos: usize = kani::any();
    kani::assume(pos <= 8);
    let size: u8 = if kind == 1 { if kani::any() { 8 } else { 4 } } else { crate::c04::any_addr_size() };
    let rel = AddAt { at: kani::any(), delta: kani::any() };
    let e = LittleEndian;
    // pre-applied copy: the field at `rel.at` (if that is where we read) holds value + delta, truncated to the field
    let mut patched = buf;
    let orig = ref_uint(&buf[pos..], size as usize, false) as u64;
    let newv = orig.wrapping_add(rel.delta);
    let fits = size == 8 || newv < (1u64 << (8 * size as u32));
    if rel.at == pos {
        let mut i = 0;
        while i < size as usize {
            patched[pos + i] = (newv >> (8 * i)) as u8;
            i += 1;
        }
    }
    let mut a = RelocateReader::new(EndianSlice::new(&buf[..], e), rel);
    a.skip(pos).unwrap();
    let mut b = EndianSlice::new(&patched[..], e);
    b.skip(pos).unwrap();
    let (ga, gb): (gimli::Result<u64>, gimli::Result<u64>) = match kind {
        0 => (a.read_address(size), b.read_address(size)),
        1 => {
            let f = if size == 8 { Format::Dwarf64 } else { Format::Dwarf32 };
            (a.read_offset(f).map(|x| x as u64), b.read_offset(f).map(|x| x as u64))
        }
        _ => (a.read_sized_offset(size).map(|x| x as u64), b.read_sized_offset(size).map(|x| x as u64)),
    };
    // a relocated value that no longer fits the field cannot be pre-applied: outside the comparison
    if rel.at != pos || fits {
        assert!(ga == gb, "relocating reader differs from the pre-relocated section");
        assert!(a.len() == b.len());
    }
    kani::cover!(rel.at == pos && fits && rel.delta != 0);
    kani::cover!(rel.at != pos);
}
#[kani::proof]
#[kani::unwind(10)]
fn c18_q_reader_read_address() {
    reloc_primitive(0)
}
#[kani::proof]
#[kani::unwind(10)]
fn c18_q_reader_read_offset() {
    reloc_primitive(1)
}
#[kani::proof]
#[kani::unwind(10)]
fn c18_q_reader_read_sized_offset() {
    reloc_primitive(2)
}

/// records which offsets went through which relocatable primitive (at most 3 calls)
#[derive(Debug, Clone)]
struct Rec<'a> {
    log: &'a Cell<[(u8, usize); 3]>,
    n: &'a Cell<usize>,
}
impl<'a> Relocate<usize> for Rec<'a> {
    fn relocate_address(&self, offset: usize, value: u64) -> gimli::Result<u64> {
        let mut l = self.log.get();
        if self.n.get() < 3 {
            l[self.n.get()] = (1, offset);
        }
        self.log.set(l);
        self.n.set(self.n.get() + 1);
        Ok(value)
    }
    fn relocate_offset(&self, offset: usize, value: usize) -> gimli::Result<usize> {
        let mut l = self.log.get();
        if self.n.get() < 3 {
            l[self.n.get()] = (2, offset);
        }
        self.log.set(l);
        self.n.set(self.n.get() + 1);
        Ok(value)
    }
}

/// Relocatable class of an attribute form (DWARF 5 §7.5.5: address class; lineptr/loclist/... section offsets;
/// strp-like string offsets; DW_FORM_ref_addr; the DWARF 2/3 data4/data8 section offsets).  0 none, 1 address, 2 offset.
pub fn form_reloc_class(form: u16, enc: Encoding, name: u16) -> u8 {
    match form {
        0x01 => 1,
        0x0e | 0x10 | 0x17 | 0x1d | 0x1f | 0x1f20 | 0x1f21 => 2,
        0x06 => {
            if enc.format == Format::Dwarf32 && legacy_offset_attr(name, enc.version) {
                2
            } else {
                0
            }
        }
        0x07 => {
            if enc.format == Format::Dwarf64 && legacy_offset_attr(name, enc.version) {
                2
            } else {
                0
            }
        }
        _ => 0,
    }
}

pub fn check_form_reloc(form: u16) {
    let buf: [u8; 20] = kani::any();
    let log = Cell::new([(0u8, 0usize); 3]);
    let n = Cell::new(0usize);
    let rec = Rec { log: &log, n: &n };
    let enc = any_encoding();
    let name: u16 = kani::any();
    let implicit: Option<i64> = if form == 0x21 { Some(kani::any()) } else { None };
    let spec = AttributeSpecification::new(DwAt(name), DwForm(form), implicit);
    let abbrevs = Abbreviations::default();
    let pos: usize = 3;
    let mut section = RelocateReader::new(FixLeb::<LittleEndian, 1>::new(&buf[..], LittleEndian), rec);
    section.skip(pos).unwrap();
    let mut raw = EntriesRaw::new(section, enc, &abbrevs, UnitOffset(0));
    let got = raw.read_attribute(spec);
    if got.is_ok() {
        let class = form_reloc_class(form, enc, name);
        if class == 0 {
            assert!(n.get() == 0, "a non-relocatable form passed through a relocatable primitive");
        } else {
            assert!(n.get() == 1 && log.get()[0] == (class, pos), "relocatable field not passed through the right primitive at its offset");
        }
    }
    kani::cover!(got.is_ok());
}

/// Expression operations: DW_OP_addr is an address; DW_OP_call_ref, DW_OP_implicit_pointer (and GNU variants),
/// DW_OP_GNU_variable_value carry .debug_info offsets; nothing else is relocatable.
pub fn check_op_reloc(opcode: u8) {
    let mut buf: [u8; 20] = kani::any();
    buf[2] = opcode;
    let log = Cell::new([(0u8, 0usize); 3]);
    let n = Cell::new(0usize);
    let rec = Rec { log: &log, n: &n };
    let enc = any_encoding();
    let mut r = RelocateReader::new(FixLeb::<LittleEndian, 1>::new(&buf[..], LittleEndian), rec);
    r.skip(2).unwrap();
    let got = Operation::parse(&mut r, enc);
    if got.is_ok() {
        let class = match opcode {
            0x03 => 1,
            0x9a | 0xfd => 2,
            0xa0 | 0xf2 => 2,
            _ => 0,
        };
        if class == 0 {
            assert!(n.get() == 0, "a non-relocatable operand passed through a relocatable primitive");
        } else if (opcode == 0xa0 || opcode == 0xf2) && enc.version == 2 {
            // DWARF 2: the reference is address-sized; gimli reads it with read_address
            assert!(n.get() == 1 && log.get()[0].1 == 3);
        } else {
            assert!(n.get() == 1 && log.get()[0] == (class, 3), "relocatable operand not passed through the right primitive");
        }
    }
    kani::cover!(got.is_ok());
}

// ------------------------------------------------------------------------------------------------
// writer side
// ------------------------------------------------------------------------------------------------
struct RecW {
    w: ArrW<LittleEndian, 24>,
    relocs: [Option<Relocation>; 2],
    n: usize,
}
impl RelocateWriter for RecW {
    type Writer = ArrW<LittleEndian, 24>;
    fn writer(&self) -> &Self::Writer {
        &self.w
    }
    fn writer_mut(&mut self) -> &mut Self::Writer {
        &mut self.w
    }
    fn relocate(&mut self, relocation: Relocation) {
        if self.n < 2 {
            self.relocs[self.n] = Some(relocation);
        }
        self.n += 1;
    }
}

fn apply(buf: &mut [u8], r: &Relocation, symbol_value: u64) {
    // S + A for symbols, A (section base 0) for section-relative offsets, truncated to the field size
    let v = match r.target {
        RelocationTarget::Symbol(_) => symbol_value.wrapping_add(r.addend as u64),
        RelocationTarget::Section(_) => r.addend as u64,
    };
    let mut i = 0;
    while i < r.size as usize {
        buf[r.offset + i] = (v >> (8 * i)) as u8;
        i += 1;
    }
}

#[kani::proof]
#[kani::unwind(10)]
fn c18_q_writer_address() {
    let size = crate::c04::any_addr_size();
    let symbolic: bool = kani::any();
    let (val, sym_value, addend): (u64, u64, i64) = (kani::any(), kani::any(), kani::any());
    let symbol: usize = kani::any();
    let addr = if symbolic { Address::Symbol { symbol, addend } } else { Address::Constant(val) };
    let resolved = if symbolic { sym_value.wrapping_add(addend as u64) } else { val };
    let mut a = RecW { w: ArrW::new(LittleEndian), relocs: [None; 2], n: 0 };
    a.write_u8(0x5a).unwrap();
    let ra = a.write_address(addr, size);
    let mut b: ArrW<LittleEndian, 24> = ArrW::new(LittleEndian);
    b.write_u8(0x5a).unwrap();
    let fits = size == 8 || resolved < (1u64 << (8 * size as u32));
    let rb = b.write_address(Address::Constant(resolved), size);
    if symbolic {
        assert!(ra.is_ok() && a.n == 1);
        let r = a.relocs[0].unwrap();
        assert!(r.offset == 1 && r.size == size && r.target == RelocationTarget::Symbol(symbol) && r.addend == addend && r.eh_pe.is_none());
        if fits {
            let mut bytes = a.w.buf;
            apply(&mut bytes, &r, sym_value);
            assert!(rb.is_ok() && a.w.len == b.len);
            let mut i = 0;
            while i < 9 {
                assert!(bytes[i] == b.buf[i], "recorded relocation applied != direct write");
                i += 1;
            }
        }
    } else {
        assert!(a.n == 0 && ra.is_ok() == rb.is_ok());
        if ra.is_ok() {
            let mut i = 0;
            while i < 9 {
                assert!(a.w.buf[i] == b.buf[i]);
                i += 1;
            }
        }
    }
    kani::cover!(symbolic && fits && size == 4);
}

#[kani::proof]
#[kani::unwind(18)]
fn c18_q_writer_offset() {
    let size: u8 = if kani::any() { 4 } else { 8 };
    let val: usize = kani::any();
    let mut a = RecW { w: ArrW::new(LittleEndian), relocs: [None; 2], n: 0 };
    a.write_u16(0x1122).unwrap();
    let ra = a.write_offset(val, SectionId::DebugStr, size);
    let mut b: ArrW<LittleEndian, 24> = ArrW::new(LittleEndian);
    b.write_u16(0x1122).unwrap();
    let rb = b.write_offset(val, SectionId::DebugStr, size);
    assert!(ra.is_ok() && a.n == 1);
    let r = a.relocs[0].unwrap();
    assert!(r.offset == 2 && r.size == size && r.target == RelocationTarget::Section(SectionId::DebugStr) && r.addend == val as i64);
    if rb.is_ok() {
        let mut bytes = a.w.buf;
        apply(&mut bytes, &r, 0);
        let mut i = 0;
        while i < 10 {
            assert!(bytes[i] == b.buf[i], "recorded relocation applied != direct write");
            i += 1;
        }
    }
    // write_offset_at: same, into a placeholder
    let mut a2 = RecW { w: ArrW::new(LittleEndian), relocs: [None; 2], n: 0 };
    a2.write_u64(0).unwrap();
    a2.write_u64(0).unwrap();
    let at: usize = kani::any();
    kani::assume(at <= 8);
    let r2 = a2.write_offset_at(at, val, SectionId::DebugInfo, size);
    let mut b2: ArrW<LittleEndian, 24> = ArrW::new(LittleEndian);
    b2.write_u64(0).unwrap();
    b2.write_u64(0).unwrap();
    let rb2 = b2.write_offset_at(at, val, SectionId::DebugInfo, size);
    assert!(r2.is_ok() && a2.n == 1);
    if rb2.is_ok() {
        let mut bytes = a2.w.buf;
        apply(&mut bytes, &a2.relocs[0].unwrap(), 0);
        let mut i = 0;
        while i < 16 {
            assert!(bytes[i] == b2.buf[i]);
            i += 1;
        }
    }
    kani::cover!(rb.is_ok() && size == 4);
}
