//! Harness-side environment models (see DESIGN.md §2.2): the only code that stands between the
//! solver and gimli's real functions.
use gimli::read::{Error, Reader, ReaderOffsetId, Result};
use gimli::{EndianSlice, Endianity};
use std::borrow::Cow;

/// `FixLeb<K>`: the real `EndianSlice`, except that the five LEB128 trait methods decode exactly K
/// bytes with straight-line code and *assume* the continuation-bit pattern of a well-formed K-byte
/// LEB128 (so that reader positions stay concrete for the symbolic executor).  The real LEB
/// decoders are decided separately and completely in C09.
#[derive(Debug, Clone, Copy)]
pub struct FixLeb<'a, E: Endianity, const K: usize>(pub EndianSlice<'a, E>);

/// two FixLeb readers are equal when they are the same view (same address and length)
impl<'a, E: Endianity, const K: usize> PartialEq for FixLeb<'a, E, K> {
    fn eq(&self, o: &Self) -> bool {
        self.0.slice().as_ptr() == o.0.slice().as_ptr() && self.0.len() == o.0.len()
    }
}

impl<'a, E: Endianity, const K: usize> FixLeb<'a, E, K> {
    pub fn new(buf: &'a [u8], e: E) -> Self {
        FixLeb(EndianSlice::new(buf, e))
    }
    fn leb_raw(&mut self) -> Result<(u64, u8)> {
        let mut v = 0u64;
        let mut last = 0u8;
        let mut i = 0;
        while i < K {
            let b = self.0.read_u8()?;
            #[cfg(kani)]
            {
                kani::assume((b & 0x80 != 0) == (i + 1 < K));
                kani::assume(i < 9 || (b & 0x7f) <= 1);
            }
            if i < 10 {
                v |= u64::from(b & 0x7f) << (7 * i as u32).min(63);
            }
            last = b;
            i += 1;
        }
        Ok((v, last))
    }
}

impl<'a, E: Endianity, const K: usize> Reader for FixLeb<'a, E, K> {
    type Endian = E;
    type Offset = usize;
    #[inline]
    fn endian(&self) -> E {
        self.0.endian()
    }
    #[inline]
    fn len(&self) -> usize {
        self.0.len()
    }
    #[inline]
    fn empty(&mut self) {
        self.0.empty()
    }
    #[inline]
    fn truncate(&mut self, len: usize) -> Result<()> {
        self.0.truncate(len)
    }
    #[inline]
    fn offset_from(&self, base: &Self) -> usize {
        Reader::offset_from(&self.0, &base.0)
    }
    #[inline]
    fn offset_id(&self) -> ReaderOffsetId {
        self.0.offset_id()
    }
    #[inline]
    fn lookup_offset_id(&self, id: ReaderOffsetId) -> Option<usize> {
        self.0.lookup_offset_id(id)
    }
    #[inline]
    fn find(&self, byte: u8) -> Result<usize> {
        Reader::find(&self.0, byte)
    }
    #[inline]
    fn skip(&mut self, len: usize) -> Result<()> {
        self.0.skip(len)
    }
    #[inline]
    fn split(&mut self, len: usize) -> Result<Self> {
        self.0.split(len).map(FixLeb)
    }
    #[inline]
    fn to_slice(&self) -> Result<Cow<'_, [u8]>> {
        self.0.to_slice()
    }
    #[inline]
    fn to_string(&self) -> Result<Cow<'_, str>> {
        Reader::to_string(&self.0)
    }
    #[inline]
    fn to_string_lossy(&self) -> Result<Cow<'_, str>> {
        Reader::to_string_lossy(&self.0)
    }
    #[inline]
    fn read_slice(&mut self, buf: &mut [u8]) -> Result<()> {
        Reader::read_slice(&mut self.0, buf)
    }
    // ---- the five overridden methods ----
    fn skip_leb128(&mut self) -> Result<()> {
        self.leb_raw().map(|_| ())
    }
    fn read_uleb128(&mut self) -> Result<u64> {
        self.leb_raw().map(|x| x.0)
    }
    fn read_uleb128_u32(&mut self) -> Result<u32> {
        let v = self.leb_raw()?.0;
        u32::try_from(v).map_err(|_| Error::BadUnsignedLeb128)
    }
    fn read_uleb128_u16(&mut self) -> Result<u16> {
        let v = self.leb_raw()?.0;
        u16::try_from(v).map_err(|_| Error::BadUnsignedLeb128)
    }
    fn read_sleb128(&mut self) -> Result<i64> {
        let (v, last) = self.leb_raw()?;
        #[cfg(kani)]
        kani::assume(K < 10 || (last & 0x7f) == 0 || (last & 0x7f) == 0x7f);
        let mut r = v as i64;
        if K < 10 {
            if last & 0x40 != 0 {
                r |= (!0i64) << (7 * K as u32);
            }
        } else if last & 0x7f == 0x7f {
            r |= 1i64 << 63;
        }
        Ok(r)
    }
}

/// `PosLeb<K>`: `FixLeb<K>` that additionally tracks its section offset as an integer, so that `offset_from` is
/// an integer subtraction instead of a pointer difference (which the symbolic executor cannot fold to a constant:
/// after a taken DW_OP_skip/bra the next operation would be decoded at a symbolic position).
/// Original description of FixLeb: the real `EndianSlice`, except that the five LEB128 trait methods decode exactly K
/// bytes with straight-line code and *assume* the continuation-bit pattern of a well-formed K-byte
/// LEB128 (so that reader positions stay concrete for the symbolic executor).  The real LEB
/// decoders are decided separately and completely in C09.
#[derive(Debug, Clone, Copy)]
pub struct PosLeb<'a, E: Endianity, const K: usize>(pub EndianSlice<'a, E>, pub usize);

/// two PosLeb readers are equal when they are the same view (same address and length)
impl<'a, E: Endianity, const K: usize> PartialEq for PosLeb<'a, E, K> {
    fn eq(&self, o: &Self) -> bool {
        self.0.slice().as_ptr() == o.0.slice().as_ptr() && self.0.len() == o.0.len()
    }
}

impl<'a, E: Endianity, const K: usize> PosLeb<'a, E, K> {
    pub fn new(buf: &'a [u8], e: E) -> Self {
        PosLeb(EndianSlice::new(buf, e), 0)
    }
    fn leb_raw(&mut self) -> Result<(u64, u8)> {
        let mut v = 0u64;
        let mut last = 0u8;
        let mut i = 0;
        while i < K {
            let b = self.0.read_u8()?;
            self.1 += 1;
            #[cfg(kani)]
            {
                kani::assume((b & 0x80 != 0) == (i + 1 < K));
                kani::assume(i < 9 || (b & 0x7f) <= 1);
            }
            if i < 10 {
                v |= u64::from(b & 0x7f) << (7 * i as u32).min(63);
            }
            last = b;
            i += 1;
        }
        Ok((v, last))
    }
}

impl<'a, E: Endianity, const K: usize> Reader for PosLeb<'a, E, K> {
    type Endian = E;
    type Offset = usize;
    #[inline]
    fn endian(&self) -> E {
        self.0.endian()
    }
    #[inline]
    fn len(&self) -> usize {
        self.0.len()
    }
    #[inline]
    fn empty(&mut self) {
        self.0.empty()
    }
    #[inline]
    fn truncate(&mut self, len: usize) -> Result<()> {
        self.0.truncate(len)
    }
    #[inline]
    fn offset_from(&self, base: &Self) -> usize {
        self.1 - base.1
    }
    #[inline]
    fn offset_id(&self) -> ReaderOffsetId {
        self.0.offset_id()
    }
    #[inline]
    fn lookup_offset_id(&self, id: ReaderOffsetId) -> Option<usize> {
        self.0.lookup_offset_id(id)
    }
    #[inline]
    fn find(&self, byte: u8) -> Result<usize> {
        Reader::find(&self.0, byte)
    }
    #[inline]
    fn skip(&mut self, len: usize) -> Result<()> {
        self.0.skip(len)?;
        self.1 += len;
        Ok(())
    }
    #[inline]
    fn split(&mut self, len: usize) -> Result<Self> {
        let at = self.1;
        let piece = self.0.split(len)?;
        self.1 += len;
        Ok(PosLeb(piece, at))
    }
    #[inline]
    fn to_slice(&self) -> Result<Cow<'_, [u8]>> {
        self.0.to_slice()
    }
    #[inline]
    fn to_string(&self) -> Result<Cow<'_, str>> {
        Reader::to_string(&self.0)
    }
    #[inline]
    fn to_string_lossy(&self) -> Result<Cow<'_, str>> {
        Reader::to_string_lossy(&self.0)
    }
    #[inline]
    fn read_slice(&mut self, buf: &mut [u8]) -> Result<()> {
        let n = buf.len();
        Reader::read_slice(&mut self.0, buf)?;
        self.1 += n;
        Ok(())
    }
    // ---- the five overridden methods ----
    fn skip_leb128(&mut self) -> Result<()> {
        self.leb_raw().map(|_| ())
    }
    fn read_uleb128(&mut self) -> Result<u64> {
        self.leb_raw().map(|x| x.0)
    }
    fn read_uleb128_u32(&mut self) -> Result<u32> {
        let v = self.leb_raw()?.0;
        u32::try_from(v).map_err(|_| Error::BadUnsignedLeb128)
    }
    fn read_uleb128_u16(&mut self) -> Result<u16> {
        let v = self.leb_raw()?.0;
        u16::try_from(v).map_err(|_| Error::BadUnsignedLeb128)
    }
    fn read_sleb128(&mut self) -> Result<i64> {
        let (v, last) = self.leb_raw()?;
        #[cfg(kani)]
        kani::assume(K < 10 || (last & 0x7f) == 0 || (last & 0x7f) == 0x7f);
        let mut r = v as i64;
        if K < 10 {
            if last & 0x40 != 0 {
                r |= (!0i64) << (7 * K as u32);
            }
        } else if last & 0x7f == 0x7f {
            r |= 1i64 << 63;
        }
        Ok(r)
    }
}

/// Reference (harness-side) decoders over plain byte slices, written from the DWARF standard (§7.6).
pub fn ref_uleb(buf: &[u8]) -> Option<(u128, usize)> {
    let mut v: u128 = 0;
    let mut n = 0usize;
    while n < buf.len() && n < 16 {
        let b = buf[n];
        v |= ((b & 0x7f) as u128) << (7 * n as u32);
        n += 1;
        if b & 0x80 == 0 {
            return Some((v, n));
        }
    }
    None
}

pub fn ref_sleb(buf: &[u8]) -> Option<(i128, usize)> {
    let mut v: i128 = 0;
    let mut n = 0usize;
    while n < buf.len() && n < 16 {
        let b = buf[n];
        v |= ((b & 0x7f) as i128) << (7 * n as u32);
        n += 1;
        if b & 0x80 == 0 {
            if b & 0x40 != 0 {
                v |= (!0i128) << (7 * n as u32);
            }
            return Some((v, n));
        }
    }
    None
}

/// Big/little endian reference read of `n` bytes.
pub fn ref_uint(buf: &[u8], n: usize, big: bool) -> u128 {
    let mut v: u128 = 0;
    let mut i = 0;
    while i < n {
        let b = if big { buf[i] } else { buf[n - 1 - i] };
        v = (v << 8) | b as u128;
        i += 1;
    }
    v
}

/// Array-backed `gimli::write::Writer` (no heap): only `endian/len/write/write_at` are the
/// harness's; every `write_*` default method exercised is gimli's real code.
#[derive(Debug, Clone)]
pub struct ArrW<E: Endianity, const N: usize> {
    pub buf: [u8; N],
    pub len: usize,
    pub endian: E,
}

impl<E: Endianity, const N: usize> ArrW<E, N> {
    pub fn new(endian: E) -> Self {
        ArrW { buf: [0; N], len: 0, endian }
    }
    pub fn slice(&self) -> &[u8] {
        &self.buf[..self.len]
    }
}

impl<E: Endianity, const N: usize> gimli::write::Writer for ArrW<E, N> {
    type Endian = E;
    fn endian(&self) -> E {
        self.endian
    }
    fn len(&self) -> usize {
        self.len
    }
    fn write(&mut self, bytes: &[u8]) -> gimli::write::Result<()> {
        if bytes.len() > N - self.len {
            return Err(gimli::write::Error::LengthOutOfBounds);
        }
        let mut i = 0;
        while i < bytes.len() {
            self.buf[self.len + i] = bytes[i];
            i += 1;
        }
        self.len += bytes.len();
        Ok(())
    }
    fn write_at(&mut self, offset: usize, bytes: &[u8]) -> gimli::write::Result<()> {
        if offset > self.len {
            return Err(gimli::write::Error::OffsetOutOfBounds);
        }
        if bytes.len() > self.len - offset {
            return Err(gimli::write::Error::LengthOutOfBounds);
        }
        let mut i = 0;
        while i < bytes.len() {
            self.buf[offset + i] = bytes[i];
            i += 1;
        }
        Ok(())
    }
}

#[cfg(kani)]
pub fn any_endian() -> gimli::RunTimeEndian {
    if kani::any() {
        gimli::RunTimeEndian::Big
    } else {
        gimli::RunTimeEndian::Little
    }
}
