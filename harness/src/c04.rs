//! C04 — line-number rows equal the DWARF state machine.
//! (a) one-step semantics of `LineRow::execute` from an arbitrary reachable register file, header parameters symbolic.
use crate::mline::*;
use crate::util::*;
use gimli::*;

pub const HDR_LEN: usize = 30;

/// A version-4 line program header with symbolic parameters and a concrete `opcode_base`.
pub fn v4_header(buf: &mut [u8], total: usize, opcode_base: u8, max_ops: Option<u8>) {
    let p: [u8; 5] = kani::any();
    let lens: [u8; 12] = kani::any();
    let ul = (total - 4) as u32;
    buf[0..4].copy_from_slice(&ul.to_le_bytes());
    buf[4] = 4;
    buf[5] = 0;
    // standard_opcode_lengths has opcode_base - 1 entries (at most 12 fit this buffer); the empty include-directory and
    // file-name tables follow it directly, and header_length says so
    let n = (opcode_base as usize).saturating_sub(1);
    assert!(n <= 12);
    buf[6..10].copy_from_slice(&((16 + n + 2 - 10) as u32).to_le_bytes());
    buf[10] = p[0]; // minimum_instruction_length
    buf[11] = max_ops.unwrap_or(p[1]); // maximum_operations_per_instruction (concrete in the 64-bit division lanes)
    buf[12] = p[2]; // default_is_stmt
    buf[13] = p[3]; // line_base
    buf[14] = p[4]; // line_range
    buf[15] = opcode_base;
    let mut i = 0;
    while i < n {
        buf[16 + i] = lens[i];
        i += 1;
    }
    buf[16 + n] = 0; // no include directories
    buf[17 + n] = 0; // no file names
}

pub fn mhdr(h: &LineProgramHeader<EndianSlice<'_, LittleEndian>>) -> MHdr {
    MHdr {
        min_len: h.minimum_instruction_length(),
        max_ops: h.maximum_operations_per_instruction(),
        default_is_stmt: h.default_is_stmt(),
        line_base: h.line_base(),
        line_range: h.line_range(),
        opcode_base: h.opcode_base(),
        addr_size: h.address_size(),
    }
}

pub fn any_addr_size() -> u8 {
    let k: u8 = kani::any();
    kani::assume(k < 4);
    1u8 << k
}

pub fn observe(r: &LineRow, tomb: bool) -> MRow {
    MRow {
        tomb,
        address: r.address(),
        op_index: r.op_index(),
        file: r.file_index(),
        line: r.line().map(|x| x.get()).unwrap_or(0),
        column: match r.column() {
            ColumnType::LeftEdge => 0,
            ColumnType::Column(c) => c.get(),
        },
        is_stmt: r.is_stmt(),
        basic_block: r.basic_block(),
        end_sequence: r.end_sequence(),
        prologue_end: r.prologue_end(),
        epilogue_begin: r.epilogue_begin(),
        isa: r.isa(),
        discriminator: r.discriminator(),
    }
}

type Prog<'a> = IncompleteLineProgram<EndianSlice<'a, LittleEndian>>;

/// Drive a fresh row to an arbitrary reachable register file through the public API; returns the model's view of it.
pub fn reach<'a>(prog: &mut Prog<'a>, row: &mut LineRow, vliw: bool) -> MRow {
    let h = mhdr(prog.header());
    let a0: u64 = kani::any();
    row.execute(LineInstruction::SetAddress(a0), prog).unwrap();
    let tomb = a0 >= addr_max(h.addr_size) - 1;
    if vliw {
        let p: u8 = kani::any();
        let r = row.execute(LineInstruction::AdvancePc(p as u64), prog);
        kani::assume(r.is_ok());
    }
    row.execute(LineInstruction::AdvanceLine(kani::any()), prog).unwrap();
    row.execute(LineInstruction::SetFile(kani::any()), prog).unwrap();
    row.execute(LineInstruction::SetColumn(kani::any()), prog).unwrap();
    row.execute(LineInstruction::SetIsa(kani::any()), prog).unwrap();
    row.execute(LineInstruction::SetDiscriminator(kani::any()), prog).unwrap();
    if kani::any() {
        row.execute(LineInstruction::NegateStatement, prog).unwrap();
    }
    if kani::any() {
        row.execute(LineInstruction::SetBasicBlock, prog).unwrap();
    }
    if kani::any() {
        row.execute(LineInstruction::SetPrologueEnd, prog).unwrap();
    }
    if kani::any() {
        row.execute(LineInstruction::SetEpilogueBegin, prog).unwrap();
    }
    observe(row, tomb)
}

/// The one-step obligation.
pub fn check_step<'a>(prog: &mut Prog<'a>, row: &mut LineRow, pre: MRow, ins: LineInstruction<EndianSlice<'a, LittleEndian>>, mi: MIns, twin: bool) {
    let h = mhdr(prog.header());
    let mut m = pre;
    let want = m.step(&h, mi);
    let got = row.execute(ins, prog);
    let post = observe(row, m.tomb);
    match want {
        MOut::Ok(emit) => {
            assert!(got == Ok(emit), "row emission / error differs from the state machine");
            assert!(post == m, "registers differ from the state machine");
            // after a row: discriminator & flags reset; end_sequence resets everything
            if emit {
                row.reset(prog.header());
                m.after_row(&h);
                let t = m.tomb;
                assert!(observe(row, t) == m, "registers after the row reset");
            }
            if twin {
                assert!(post.address == 0x1234, "twin");
            }
        }
        MOut::AddressOverflow => assert!(got == Err(Error::AddressOverflow), "address overflow must be reported"),
        MOut::OutOfModel => {}
    }
    // any-input clause: within a sequence addresses never decrease and never exceed the address size
    if got.is_ok() && !post.end_sequence {
        assert!(post.address >= pre.address);
        assert!(post.address <= addr_max(h.addr_size));
    }
}

macro_rules! step_harness {
    ($name:ident, $base:expr, $vliw:expr, $twin:expr, |$a:ident| $mk:expr) => {
        step_harness!($name, $base, None, $vliw, $twin, |$a| $mk);
    };
    ($name:ident, $base:expr, $maxops:expr, $vliw:expr, $twin:expr, |$a:ident| $mk:expr) => {
        #[kani::proof]
        #[kani::unwind(14)]
        fn $name() {
            let mut buf = [0u8; HDR_LEN + 2];
            v4_header(&mut buf, HDR_LEN + 2, $base, $maxops);
            let dl = DebugLine::new(&buf, LittleEndian);
            let asz = any_addr_size();
            let Ok(mut prog) = dl.program(DebugLineOffset(0), asz, None, None) else { return };
            let mut row = LineRow::new(prog.header());
            let init = observe(&row, false);
            assert!(init == MRow::initial(&mhdr(prog.header())));
            let pre = reach(&mut prog, &mut row, $vliw);
            let $a: u64 = kani::any();
            let (ins, mi) = $mk;
            check_step(&mut prog, &mut row, pre, ins, mi, $twin);
            kani::cover!(true);
        }
    };
}

step_harness!(c04_q_step_special, 13, false, false, |a| {
    let op = a as u8;
    kani::assume(op >= 13);
    (LineInstruction::Special(op), MIns::Special(op))
});
step_harness!(c04_q_step_special_twin, 13, false, true, |a| {
    let op = a as u8;
    kani::assume(op >= 13);
    (LineInstruction::Special(op), MIns::Special(op))
});
step_harness!(c04_q_step_special_vliw, 10, Some(4), true, false, |a| {
    let op = a as u8;
    kani::assume(op >= 10);
    (LineInstruction::Special(op), MIns::Special(op))
});
step_harness!(c04_t_step_special_base1, 1, false, false, |a| {
    let op = a as u8;
    kani::assume(op >= 1);
    (LineInstruction::Special(op), MIns::Special(op))
});
// DW_LNS_advance_pc with a full 64-bit operand: the 64-bit divider by a *symbolic* max_ops exceeds the solver, so
// max_ops is concrete per lane (1, 2, 3, 4, 255); min_inst_len, line parameters, registers and operand stay symbolic.
step_harness!(c04_q_step_advance_pc_m1, 13, Some(1), false, false, |a| (LineInstruction::AdvancePc(a), MIns::AdvancePc(a)));
step_harness!(c04_q_step_advance_pc_m2, 13, Some(2), true, false, |a| (LineInstruction::AdvancePc(a), MIns::AdvancePc(a)));
step_harness!(c04_q_step_advance_pc_m4, 13, Some(4), true, false, |a| (LineInstruction::AdvancePc(a), MIns::AdvancePc(a)));
step_harness!(c04_t_step_advance_pc_m3, 13, Some(3), true, false, |a| (LineInstruction::AdvancePc(a), MIns::AdvancePc(a)));
step_harness!(c04_t_step_advance_pc_m255, 13, Some(255), true, false, |a| (LineInstruction::AdvancePc(a), MIns::AdvancePc(a)));
// symbolic max_ops with an 8-bit operand
step_harness!(c04_q_step_advance_pc_small, 13, false, false, |a| (LineInstruction::AdvancePc(a & 0xff), MIns::AdvancePc(a & 0xff)));
step_harness!(c04_q_step_const_add_pc, 13, false, false, |a| (LineInstruction::ConstAddPc, MIns::ConstAddPc));
step_harness!(c04_q_step_const_add_pc_vliw, 4, Some(3), true, false, |a| (LineInstruction::ConstAddPc, MIns::ConstAddPc));
step_harness!(c04_q_step_fixed_add_pc, 13, true, false, |a| (LineInstruction::FixedAddPc(a as u16), MIns::FixedAddPc(a as u16)));
step_harness!(c04_q_step_advance_line, 13, false, false, |a| (LineInstruction::AdvanceLine(a as i64), MIns::AdvanceLine(a as i64)));
step_harness!(c04_q_step_set_address, 13, true, false, |a| (LineInstruction::SetAddress(a), MIns::SetAddress(a)));
step_harness!(c04_q_step_copy, 13, false, false, |a| (LineInstruction::Copy, MIns::Copy));
step_harness!(c04_q_step_end_sequence, 13, false, false, |a| (LineInstruction::EndSequence, MIns::EndSequence));
step_harness!(c04_q_step_setters, 13, false, false, |a| {
    let k: u8 = kani::any();
    kani::assume(k < 9);
    match k {
        0 => (LineInstruction::SetFile(a), MIns::SetFile(a)),
        1 => (LineInstruction::SetColumn(a), MIns::SetColumn(a)),
        2 => (LineInstruction::NegateStatement, MIns::NegateStatement),
        3 => (LineInstruction::SetBasicBlock, MIns::SetBasicBlock),
        4 => (LineInstruction::SetPrologueEnd, MIns::SetPrologueEnd),
        5 => (LineInstruction::SetEpilogueBegin, MIns::SetEpilogueBegin),
        6 => (LineInstruction::SetIsa(a), MIns::SetIsa(a)),
        7 => (LineInstruction::SetDiscriminator(a), MIns::SetDiscriminator(a)),
        _ => (LineInstruction::UnknownStandard1(DwLns(a as u8), a), MIns::Unknown),
    }
});

// ---------------------------------------------------------------------------------------------------------------------
// (b) instruction decoding glue: one query per opcode (concrete dispatch bytes, symbolic operands through the real LEB /
// sized readers): `LineInstructions::next_instruction` yields the instruction DWARF 5 §6.2.5 assigns to the bytes.
// This is the reader half C13's per-kind encodings compose with.
macro_rules! decode_harness {
    ($name:ident, [$($pre:expr),+], |$b:ident, $got:ident| $body:block) => {
        #[kani::proof]
        #[kani::unwind(16)]
        fn $name() {
            let mut buf = [0u8; HDR_LEN + 14];
            v4_header(&mut buf, HDR_LEN + 14, 13, None);
            let data: [u8; 14] = kani::any();
            let mut i = 0;
            while i < 14 {
                buf[HDR_LEN + i] = data[i];
                i += 1;
            }
            let pre = [$($pre),+];
            let mut j = 0;
            while j < pre.len() {
                buf[HDR_LEN + j] = pre[j];
                j += 1;
            }
            let dl = DebugLine::new(&buf, LittleEndian);
            let Ok(prog) = dl.program(DebugLineOffset(0), 8, None, None) else { return };
            let header = prog.header();
            let mut it = header.instructions();
            let $got = it.next_instruction(header);
            let $b = &buf[HDR_LEN..];
            $body;
            kani::cover!(true);
        }
    };
}
macro_rules! decode_uleb {
    ($name:ident, $op:expr, $variant:ident) => {
        decode_harness!($name, [$op], |b, got| {
            let r = ref_uleb(&b[1..]);
            match got {
                Ok(Some(LineInstruction::$variant(v))) => {
                    assert!(matches!(r, Some((w, _)) if w == v as u128), "operand differs from the ULEB128 value");
                }
                Ok(_) => panic!("wrong instruction kind"),
                Err(_) => assert!(!matches!(r, Some((w, n)) if w <= u64::MAX as u128 && n <= 9), "well-formed operand rejected"),
            }
        });
    };
}
decode_uleb!(c04_t_decode_advance_pc, 2u8, AdvancePc);
decode_uleb!(c04_t_decode_set_file, 4u8, SetFile);
decode_uleb!(c04_t_decode_set_column, 5u8, SetColumn);
decode_uleb!(c04_t_decode_set_isa, 12u8, SetIsa);
decode_harness!(c04_t_decode_advance_line, [3u8], |b, got| {
    let r = ref_sleb(&b[1..]);
    match got {
        Ok(Some(LineInstruction::AdvanceLine(v))) => assert!(matches!(r, Some((w, _)) if w == v as i128), "operand differs from the SLEB128 value"),
        Ok(_) => panic!("wrong instruction kind"),
        Err(_) => assert!(!matches!(r, Some((w, n)) if w >= i64::MIN as i128 && w <= i64::MAX as i128 && n <= 9), "well-formed operand rejected"),
    }
});
decode_harness!(c04_t_decode_fixed_advance_pc, [9u8], |b, got| {
    let want = b[1] as u16 | (b[2] as u16) << 8;
    assert!(matches!(got, Ok(Some(LineInstruction::FixedAddPc(v))) if v == want));
});
decode_harness!(c04_t_decode_copy, [1u8], |b, got| { assert!(matches!(got, Ok(Some(LineInstruction::Copy)))); });
decode_harness!(c04_t_decode_negate_stmt, [6u8], |b, got| { assert!(matches!(got, Ok(Some(LineInstruction::NegateStatement)))); });
decode_harness!(c04_t_decode_basic_block, [7u8], |b, got| { assert!(matches!(got, Ok(Some(LineInstruction::SetBasicBlock)))); });
decode_harness!(c04_t_decode_const_add_pc, [8u8], |b, got| { assert!(matches!(got, Ok(Some(LineInstruction::ConstAddPc)))); });
decode_harness!(c04_t_decode_prologue_end, [10u8], |b, got| { assert!(matches!(got, Ok(Some(LineInstruction::SetPrologueEnd)))); });
decode_harness!(c04_t_decode_epilogue_begin, [11u8], |b, got| { assert!(matches!(got, Ok(Some(LineInstruction::SetEpilogueBegin)))); });
decode_harness!(c04_t_decode_special_13, [13u8], |b, got| { assert!(matches!(got, Ok(Some(LineInstruction::Special(13))))); });
decode_harness!(c04_t_decode_special_255, [255u8], |b, got| { assert!(matches!(got, Ok(Some(LineInstruction::Special(255))))); });
decode_harness!(c04_t_decode_end_sequence, [0u8, 1u8, 1u8], |b, got| { assert!(matches!(got, Ok(Some(LineInstruction::EndSequence)))); });
decode_harness!(c04_t_decode_set_address, [0u8, 9u8, 2u8], |b, got| {
    let want = ref_uint(&b[3..], 8, false) as u64;
    assert!(matches!(got, Ok(Some(LineInstruction::SetAddress(a))) if a == want));
});
decode_harness!(c04_t_decode_set_discriminator_1, [0u8, 2u8, 4u8], |b, got| {
    match got {
        Ok(Some(LineInstruction::SetDiscriminator(d))) => assert!(b[3] & 0x80 == 0 && d == b[3] as u64),
        Ok(_) => panic!("wrong instruction kind"),
        Err(_) => assert!(b[3] & 0x80 != 0, "well-formed discriminator rejected"),
    }
});
