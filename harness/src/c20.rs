//! C20 — reused contexts, buffers, iterators behave like fresh ones.
//! (a) UnwindContext reuse: FDE A (which may fail in its CIE, mid-FDE, by stack/rule overflow, with 0/1/many initial
//!     rules) is evaluated on a context, then FDE B on the same context: B's first row / error must equal what a
//!     fresh context gives.  Skeletons are generated (gen/c20_gen.rs); operands are symbolic and shared by both runs.
use crate::c06::Store3;
use crate::util::*;
use gimli::*;

type Rd<'a> = FixLeb<'a, LittleEndian, 1>;

#[derive(Clone, PartialEq, Debug)]
struct RowObs {
    start: u64,
    end: u64,
    args: u64,
    cfa: CfaRule<usize>,
    r0: Option<RegisterRule<usize>>,
    r7: Option<RegisterRule<usize>>,
    r16: Option<RegisterRule<usize>>,
    r33: Option<RegisterRule<usize>>,
    n: usize,
}

fn first_row<'a>(section: &DebugFrame<Rd<'a>>, bases: &BaseAddresses, fde: &FrameDescriptionEntry<Rd<'a>>, ctx: &mut UnwindContext<usize, Store3>) -> gimli::Result<Option<RowObs>> {
    let mut t = fde.rows(section, bases, ctx)?;
    match t.next_row()? {
        None => Ok(None),
        Some(row) => Ok(Some(RowObs {
            start: row.start_address(),
            end: row.end_address(),
            args: row.saved_args_size(),
            cfa: row.cfa().clone(),
            r0: row.register(Register(0)),
            r7: row.register(Register(7)),
            r16: row.register(Register(16)),
            r33: row.register(Register(33)),
            n: row.registers().count(),
        })),
    }
}

pub fn reuse_check(buf: &[u8], fde_a: usize, fde_b: usize, twin: bool, a_cie_invalid: bool) {
    let mut section = DebugFrame::from(Rd::new(buf, LittleEndian));
    section.set_address_size(8);
    let bases = BaseAddresses::default();
    let Ok(a) = section.fde_from_offset(&bases, DebugFrameOffset(fde_a), DebugFrame::cie_from_offset) else {
        assert!(false, "FDE A rejected");
        return;
    };
    let Ok(b) = section.fde_from_offset(&bases, DebugFrameOffset(fde_b), DebugFrame::cie_from_offset) else {
        assert!(false, "FDE B rejected");
        return;
    };
    let mut used: UnwindContext<usize, Store3> = UnwindContext::new_in();
    // A whose CIE is statically invalid: `rows()` fails while initialising the context - which is the history of
    // interest; its (infeasible) success arm is not walked
    let ra_failed = if a_cie_invalid {
        let failed = a.rows(&section, &bases, &mut used).is_err();
        assert!(failed, "FDE A's invalid CIE was accepted");
        failed
    } else {
        first_row(&section, &bases, &a, &mut used).is_err()
    };
    let on_used = first_row(&section, &bases, &b, &mut used);
    let mut fresh: UnwindContext<usize, Store3> = UnwindContext::new_in();
    let on_fresh = first_row(&section, &bases, &b, &mut fresh);
    assert!(on_used == on_fresh, "result on a reused UnwindContext differs from a fresh one");
    if twin {
        assert!(on_used.is_err(), "twin");
    }
    // (A's own outcome is fixed by the skeleton: it either always fails or always succeeds)
    let _ = ra_failed;
    kani::cover!(true);
}

// ---- (b) cloned iterators continue independently and equally ----
#[kani::proof]
#[kani::unwind(12)]
fn c20_q_clone_operation_iter() {
    // [const1u x] [plus_uconst y] ...: clone after the first item, advance both
    let mut buf: [u8; 8] = kani::any();
    buf[0] = 0x08;
    buf[2] = 0x23;
    let enc = crate::c07::any_encoding();
    let mut it = Expression(Rd::new(&buf[..4], LittleEndian)).operations(enc);
    let first = it.next();
    assert!(matches!(first, Ok(Some(Operation::UnsignedConstant { value })) if value == buf[1] as u64));
    let mut c = it.clone();
    let x = it.next();
    let y = c.next();
    assert!(matches!((&x, &y), (Ok(Some(Operation::PlusConstant { value: a })), Ok(Some(Operation::PlusConstant { value: b }))) if a == b && *a == (buf[3] & 0x7f) as u64));
    assert!(matches!(it.next(), Ok(None)) && matches!(c.next(), Ok(None)));
    kani::cover!(true);
}

#[kani::proof]
#[kani::unwind(12)]
fn c20_q_clone_raw_range_iter() {
    let mut buf: [u8; 12] = kani::any();
    buf[0] = 4; // offset_pair
    buf[3] = 4;
    buf[6] = 0;
    let enc = Encoding { format: Format::Dwarf32, version: 5, address_size: 8 };
    let e = LittleEndian;
    let lists = RangeLists::new(DebugRanges::from(Rd::new(&[], e)), DebugRngLists::from(Rd::new(&buf[..7], e)));
    let mut it = lists.raw_ranges(RangeListsOffset(0), enc).unwrap();
    let first = it.next();
    assert!(matches!(first, Ok(Some(RawRngListEntry::OffsetPair { .. }))));
    // RawRngListIter is not Clone: a second iterator positioned by offset plays the role of the resumed one
    let mut c = lists.raw_ranges(RangeListsOffset(3), enc).unwrap();
    let x = it.next();
    let y = c.next();
    assert!(matches!((&x, &y), (Ok(Some(RawRngListEntry::OffsetPair { begin: a, end: b })), Ok(Some(RawRngListEntry::OffsetPair { begin: c2, end: d }))) if a == c2 && b == d));
    assert!(matches!(it.next(), Ok(None)) && matches!(c.next(), Ok(None)));
    kani::cover!(true);
}
