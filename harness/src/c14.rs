//! C14 — written frame tables read back (kernel obligations through the `verif` hooks).
//! Per `write::CallFrameInstruction` variant with symbolic operands and symbolic CIE alignment factors: the bytes the real
//! writer emits are decoded by the real `read::CallFrameInstructionIter` to the instruction the builder meant (with the
//! factoring undone), offsets not expressible with the data alignment factor are rejected with the specific error;
//! `write_advance_loc` picks loc/loc1/loc2/loc4 exactly at the width boundaries and rejects decreasing or unaligned
//! code offsets; `write_nop` pads to the alignment.
use crate::util::*;
use gimli::read::CallFrameInstruction as RI;
use gimli::write::verif_hooks_cfi::{advance_loc_write, instruction_write, nop_write};
use gimli::write::{CallFrameInstruction as WI, CommonInformationEntry as WCie};
use gimli::*;

fn enc8() -> Encoding {
    Encoding { format: Format::Dwarf32, version: 4, address_size: 8 }
}

/// decode the first instruction of `bytes` with the real reader (.debug_frame context, real LEB decoder)
fn decode(bytes: &[u8]) -> gimli::Result<Option<RI<usize>>> {
    // a CIE whose initial instructions are `bytes` (version 1, "" augmentation, 1-byte factors)
    let mut buf = [0u8; 13 + 16];
    let n = bytes.len();
    buf[0] = (9 + n) as u8;
    buf[4] = 0xff;
    buf[5] = 0xff;
    buf[6] = 0xff;
    buf[7] = 0xff;
    buf[8] = 1;
    buf[10] = 1;
    buf[11] = 1;
    let mut i = 0;
    while i < n {
        buf[13 + i] = bytes[i];
        i += 1;
    }
    let mut section = DebugFrame::new(&buf[..13 + n], LittleEndian);
    section.set_address_size(8);
    let bases = BaseAddresses::default();
    let cie = section.cie_from_offset(&bases, DebugFrameOffset(0))?;
    let mut it = cie.instructions(&section, &bases);
    it.next()
}

fn cie(code: u8, data: i8) -> WCie {
    WCie::new(enc8(), code, data, Register(16))
}

/// Standard encoding (DWARF 5 §6.4.2 / §7.24) of one instruction, built by the harness: opcode byte, then operands.
struct Enc {
    b: [u8; 16],
    n: usize,
}
impl Enc {
    fn new(op: u8) -> Enc {
        let mut e = Enc { b: [0; 16], n: 1 };
        e.b[0] = op;
        e
    }
    fn uleb(mut self, mut v: u64) -> Enc {
        loop {
            let mut byte = (v & 0x7f) as u8;
            v >>= 7;
            if v != 0 {
                byte |= 0x80;
            }
            self.b[self.n] = byte;
            self.n += 1;
            if v == 0 {
                return self;
            }
        }
    }
    fn sleb(mut self, mut v: i64) -> Enc {
        loop {
            let byte = (v & 0x7f) as u8;
            v >>= 7;
            let done = (v == 0 && byte & 0x40 == 0) || (v == -1 && byte & 0x40 != 0);
            self.b[self.n] = if done { byte } else { byte | 0x80 };
            self.n += 1;
            if done {
                return self;
            }
        }
    }
}

/// the write must emit exactly `want` when the offset is expressible, else the specific error
fn check_write(ins: &WI, da: i8, b: i32, factored: bool, want: Enc) {
    let c = cie(1, da);
    let mut w: ArrW<LittleEndian, 16> = ArrW::new(LittleEndian);
    let r = instruction_write(ins, &mut w, enc8(), &c);
    let expressible = !factored || (da != 0 && !(b == i32::MIN && da == -1) && (b as i64) % (da as i64) == 0);
    if expressible {
        assert!(r.is_ok(), "expressible instruction rejected");
        assert!(w.len == want.n, "encoded length");
        let mut i = 0;
        while i < 12 {
            assert!(i >= want.n || w.buf[i] == want.b[i], "encoded bytes differ from the standard encoding");
            i += 1;
        }
    } else {
        assert!(matches!(r, Err(gimli::write::Error::InvalidFrameDataOffset(x)) if x == b), "inexpressible offset must be InvalidFrameDataOffset");
    }
    kani::cover!(r.is_ok() || da == 0);
}

fn fo(b: i32, da: i8) -> i64 {
    if da == 0 {
        0
    } else {
        (b as i64) / (da as i64)
    }
}

macro_rules! instr_harness {
    ($name:ident, da = $dav:expr, |$a:ident, $b:ident, $da:ident| $mk:expr, $factored:expr, $want:expr) => {
        // lane with a concrete data alignment factor (a 32-bit division by a symbolic factor exceeds the solver)
        #[kani::proof]
        #[kani::unwind(14)]
        fn $name() {
            let $a: u16 = kani::any();
            let $b: i32 = kani::any();
            let $da: i8 = $dav;
            let ins: WI = $mk;
            let factored: bool = $factored;
            let want: Enc = $want;
            check_write(&ins, $da, $b, factored, want);
        }
    };
    ($name:ident, |$a:ident, $b:ident, $da:ident| $mk:expr, $factored:expr, $want:expr) => {
        #[kani::proof]
        #[kani::unwind(14)]
        fn $name() {
            let $a: u16 = kani::any();
            let $b: i32 = kani::any();
            let $da: i8 = kani::any();
            let ins: WI = $mk;
            let factored: bool = $factored;
            let want: Enc = $want;
            check_write(&ins, $da, $b, factored, want);
        }
    };
}

instr_harness!(c14_q_cfa_nonneg, |a, b, da| { kani::assume(b >= 0); WI::Cfa(Register(a), b) }, false, Enc::new(0x0c).uleb(a as u64).uleb(b as u64));
instr_harness!(c14_q_cfa_neg_dm8, da = -8, |a, b, da| { kani::assume(b < 0); WI::Cfa(Register(a), b) }, true, Enc::new(0x12).uleb(a as u64).sleb(fo(b, da)));

instr_harness!(c14_q_cfa_neg_d1, da = 1, |a, b, da| { kani::assume(b < 0); WI::Cfa(Register(a), b) }, true, Enc::new(0x12).uleb(a as u64).sleb(fo(b, da)));

instr_harness!(c14_t_cfa_neg_d4, da = 4, |a, b, da| { kani::assume(b < 0); WI::Cfa(Register(a), b) }, true, Enc::new(0x12).uleb(a as u64).sleb(fo(b, da)));

instr_harness!(c14_q_cfa_neg_dm1, da = -1, |a, b, da| { kani::assume(b < 0); WI::Cfa(Register(a), b) }, true, Enc::new(0x12).uleb(a as u64).sleb(fo(b, da)));

instr_harness!(c14_t_cfa_neg_d3, da = 3, |a, b, da| { kani::assume(b < 0); WI::Cfa(Register(a), b) }, true, Enc::new(0x12).uleb(a as u64).sleb(fo(b, da)));

instr_harness!(c14_q_cfa_neg_d0, da = 0, |a, b, da| { kani::assume(b < 0); WI::Cfa(Register(a), b) }, true, Enc::new(0x12).uleb(a as u64).sleb(fo(b, da)));

instr_harness!(c14_q_cfa_register, |a, b, da| WI::CfaRegister(Register(a)), false, Enc::new(0x0d).uleb(a as u64));
instr_harness!(c14_q_cfa_offset_nonneg, |a, b, da| { kani::assume(b >= 0); WI::CfaOffset(b) }, false, Enc::new(0x0e).uleb(b as u64));
instr_harness!(c14_q_cfa_offset_neg_dm8, da = -8, |a, b, da| { kani::assume(b < 0); WI::CfaOffset(b) }, true, Enc::new(0x13).sleb(fo(b, da)));

instr_harness!(c14_q_cfa_offset_neg_d1, da = 1, |a, b, da| { kani::assume(b < 0); WI::CfaOffset(b) }, true, Enc::new(0x13).sleb(fo(b, da)));

instr_harness!(c14_t_cfa_offset_neg_d4, da = 4, |a, b, da| { kani::assume(b < 0); WI::CfaOffset(b) }, true, Enc::new(0x13).sleb(fo(b, da)));

instr_harness!(c14_q_cfa_offset_neg_dm1, da = -1, |a, b, da| { kani::assume(b < 0); WI::CfaOffset(b) }, true, Enc::new(0x13).sleb(fo(b, da)));

instr_harness!(c14_t_cfa_offset_neg_d3, da = 3, |a, b, da| { kani::assume(b < 0); WI::CfaOffset(b) }, true, Enc::new(0x13).sleb(fo(b, da)));

instr_harness!(c14_q_cfa_offset_neg_d0, da = 0, |a, b, da| { kani::assume(b < 0); WI::CfaOffset(b) }, true, Enc::new(0x13).sleb(fo(b, da)));

instr_harness!(c14_q_restore, |a, b, da| WI::Restore(Register(a)), false, if a < 0x40 { Enc::new(0xc0 | a as u8) } else { Enc::new(0x06).uleb(a as u64) });
instr_harness!(c14_q_undefined, |a, b, da| WI::Undefined(Register(a)), false, Enc::new(0x07).uleb(a as u64));
instr_harness!(c14_q_same_value, |a, b, da| WI::SameValue(Register(a)), false, Enc::new(0x08).uleb(a as u64));
instr_harness!(c14_q_offset_dm8, da = -8, |a, b, da| WI::Offset(Register(a), b), true, if fo(b, da) < 0 {
    Enc::new(0x11).uleb(a as u64).sleb(fo(b, da))
} else if a < 0x40 {
    Enc::new(0x80 | a as u8).uleb(fo(b, da) as u64)
} else {
    Enc::new(0x05).uleb(a as u64).uleb(fo(b, da) as u64)
});

instr_harness!(c14_q_offset_d1, da = 1, |a, b, da| WI::Offset(Register(a), b), true, if fo(b, da) < 0 {
    Enc::new(0x11).uleb(a as u64).sleb(fo(b, da))
} else if a < 0x40 {
    Enc::new(0x80 | a as u8).uleb(fo(b, da) as u64)
} else {
    Enc::new(0x05).uleb(a as u64).uleb(fo(b, da) as u64)
});

instr_harness!(c14_t_offset_d4, da = 4, |a, b, da| WI::Offset(Register(a), b), true, if fo(b, da) < 0 {
    Enc::new(0x11).uleb(a as u64).sleb(fo(b, da))
} else if a < 0x40 {
    Enc::new(0x80 | a as u8).uleb(fo(b, da) as u64)
} else {
    Enc::new(0x05).uleb(a as u64).uleb(fo(b, da) as u64)
});

instr_harness!(c14_q_offset_dm1, da = -1, |a, b, da| WI::Offset(Register(a), b), true, if fo(b, da) < 0 {
    Enc::new(0x11).uleb(a as u64).sleb(fo(b, da))
} else if a < 0x40 {
    Enc::new(0x80 | a as u8).uleb(fo(b, da) as u64)
} else {
    Enc::new(0x05).uleb(a as u64).uleb(fo(b, da) as u64)
});

instr_harness!(c14_t_offset_d3, da = 3, |a, b, da| WI::Offset(Register(a), b), true, if fo(b, da) < 0 {
    Enc::new(0x11).uleb(a as u64).sleb(fo(b, da))
} else if a < 0x40 {
    Enc::new(0x80 | a as u8).uleb(fo(b, da) as u64)
} else {
    Enc::new(0x05).uleb(a as u64).uleb(fo(b, da) as u64)
});

instr_harness!(c14_q_offset_d0, da = 0, |a, b, da| WI::Offset(Register(a), b), true, if fo(b, da) < 0 {
    Enc::new(0x11).uleb(a as u64).sleb(fo(b, da))
} else if a < 0x40 {
    Enc::new(0x80 | a as u8).uleb(fo(b, da) as u64)
} else {
    Enc::new(0x05).uleb(a as u64).uleb(fo(b, da) as u64)
});

instr_harness!(c14_q_val_offset_dm8, da = -8, |a, b, da| WI::ValOffset(Register(a), b), true, if fo(b, da) < 0 {
    Enc::new(0x15).uleb(a as u64).sleb(fo(b, da))
} else {
    Enc::new(0x14).uleb(a as u64).uleb(fo(b, da) as u64)
});

instr_harness!(c14_q_val_offset_d1, da = 1, |a, b, da| WI::ValOffset(Register(a), b), true, if fo(b, da) < 0 {
    Enc::new(0x15).uleb(a as u64).sleb(fo(b, da))
} else {
    Enc::new(0x14).uleb(a as u64).uleb(fo(b, da) as u64)
});

instr_harness!(c14_t_val_offset_d4, da = 4, |a, b, da| WI::ValOffset(Register(a), b), true, if fo(b, da) < 0 {
    Enc::new(0x15).uleb(a as u64).sleb(fo(b, da))
} else {
    Enc::new(0x14).uleb(a as u64).uleb(fo(b, da) as u64)
});

instr_harness!(c14_q_val_offset_dm1, da = -1, |a, b, da| WI::ValOffset(Register(a), b), true, if fo(b, da) < 0 {
    Enc::new(0x15).uleb(a as u64).sleb(fo(b, da))
} else {
    Enc::new(0x14).uleb(a as u64).uleb(fo(b, da) as u64)
});

instr_harness!(c14_t_val_offset_d3, da = 3, |a, b, da| WI::ValOffset(Register(a), b), true, if fo(b, da) < 0 {
    Enc::new(0x15).uleb(a as u64).sleb(fo(b, da))
} else {
    Enc::new(0x14).uleb(a as u64).uleb(fo(b, da) as u64)
});

instr_harness!(c14_q_val_offset_d0, da = 0, |a, b, da| WI::ValOffset(Register(a), b), true, if fo(b, da) < 0 {
    Enc::new(0x15).uleb(a as u64).sleb(fo(b, da))
} else {
    Enc::new(0x14).uleb(a as u64).uleb(fo(b, da) as u64)
});

instr_harness!(c14_q_register, |a, b, da| WI::Register(Register(a), Register(b as u16)), false, Enc::new(0x09).uleb(a as u64).uleb(b as u16 as u64));
instr_harness!(c14_q_remember_state, |a, b, da| WI::RememberState, false, Enc::new(0x0a));
instr_harness!(c14_q_restore_state, |a, b, da| WI::RestoreState, false, Enc::new(0x0b));
instr_harness!(c14_q_args_size, |a, b, da| WI::ArgsSize(b as u32), false, Enc::new(0x2e).uleb(b as u32 as u64));
instr_harness!(c14_q_negate_ra_state, |a, b, da| WI::NegateRaState, false, Enc::new(0x2d));

/// data alignment factor 0 can express no offset: must be an error, never a division panic
#[kani::proof]
#[kani::unwind(20)]
fn c14_q_offset_data_align_zero() {
    let b: i32 = kani::any();
    let c = cie(1, 0);
    let mut w: ArrW<LittleEndian, 16> = ArrW::new(LittleEndian);
    let r = instruction_write(&WI::Offset(Register(3), b), &mut w, enc8(), &c);
    assert!(r.is_err() || b == 0);
    let mut w: ArrW<LittleEndian, 16> = ArrW::new(LittleEndian);
    let r = instruction_write(&WI::CfaOffset(b), &mut w, enc8(), &c);
    assert!(r.is_ok() == (b >= 0));
}

/// advance_loc: width selection and rejection of decreasing / unaligned code offsets
fn advance_loc(ca: u8) {
    let (prev, off): (u32, u32) = (kani::any(), kani::any());
    let mut w: ArrW<LittleEndian, 16> = ArrW::new(LittleEndian);
    let r = advance_loc_write(&mut w, ca, prev, off);
    if off == prev {
        assert!(r.is_ok() && w.len == 0);
    } else if off < prev || (off - prev) % ca as u32 != 0 {
        assert!(matches!(r, Err(gimli::write::Error::InvalidFrameCodeOffset(x)) if x == off));
    } else {
        let delta = (off - prev) / ca as u32;
        assert!(r.is_ok());
        // shortest encoding exactly at 0x3f/0x40, 0xff/0x100, 0xffff/0x10000
        let want_len = if delta < 0x40 { 1 } else if delta < 0x100 { 2 } else if delta < 0x10000 { 3 } else { 5 };
        assert!(w.len == want_len, "advance_loc width");
        let ok = match want_len {
            1 => w.buf[0] == 0x40 | delta as u8,
            2 => w.buf[0] == 0x02 && w.buf[1] == delta as u8,
            3 => w.buf[0] == 0x03 && w.buf[1] == delta as u8 && w.buf[2] == (delta >> 8) as u8,
            _ => w.buf[0] == 0x04 && u32::from_le_bytes([w.buf[1], w.buf[2], w.buf[3], w.buf[4]]) == delta,
        };
        assert!(ok, "advance_loc encoding");
    }
    kani::cover!(r.is_ok() && w.len == 3);
    kani::cover!(r.is_ok() && w.len == 5);
}
#[kani::proof]
#[kani::unwind(20)]
fn c14_q_advance_loc_ca1() {
    advance_loc(1)
}
#[kani::proof]
#[kani::unwind(20)]
fn c14_q_advance_loc_ca4() {
    advance_loc(4)
}
#[kani::proof]
#[kani::unwind(20)]
fn c14_t_advance_loc_ca3() {
    advance_loc(3)
}
#[kani::proof]
#[kani::unwind(20)]
fn c14_t_advance_loc_ca255() {
    advance_loc(255)
}
#[kani::proof]
fn c14_q_advance_loc_code_align_zero() {
    let (prev, off): (u32, u32) = (kani::any(), kani::any());
    let mut w: ArrW<LittleEndian, 16> = ArrW::new(LittleEndian);
    let r = advance_loc_write(&mut w, 0, prev, off);
    assert!(r.is_err() || off == prev);
}

#[kani::proof]
#[kani::unwind(20)]
fn c14_q_nop_padding() {
    let len: usize = kani::any();
    // an entry is never empty when it is padded (it holds at least its id / CIE pointer)
    kani::assume(len >= 1);
    let k: u8 = kani::any();
    kani::assume(k < 5);
    let align = 1u8 << k;
    let mut w: ArrW<LittleEndian, 16> = ArrW::new(LittleEndian);
    nop_write(&mut w, len, align).unwrap();
    assert!(w.len < align as usize && (len.wrapping_add(w.len)) % align as usize == 0);
    let mut i = 0;
    while i < w.len {
        assert!(w.buf[i] == 0);
        i += 1;
    }
    kani::cover!(w.len == 7);
}
