//! C01 — untrusted DWARF never panics / hangs.  Oracle = Kani's built-in checks (overflow in the debug
//! semantics, bounds, unwrap/expect/unreachable, pointer validity) + unwinding assertions (termination),
//! over arbitrary bytes and arbitrary caller-supplied indices/bases/addresses.
use crate::util::*;
use gimli::*;

fn any_format() -> Format {
    if kani::any() {
        Format::Dwarf64
    } else {
        Format::Dwarf32
    }
}
fn any_bases() -> BaseAddresses {
    let mut b = BaseAddresses::default();
    if kani::any() {
        b = b.set_eh_frame_hdr(kani::any());
    }
    if kani::any() {
        b = b.set_eh_frame(kani::any());
    }
    if kani::any() {
        b = b.set_text(kani::any());
    }
    if kani::any() {
        b = b.set_got(kani::any());
    }
    b
}

// ---- indexed tables: .debug_addr, .debug_str_offsets, .debug_rnglists / .debug_loclists offset tables ----
#[kani::proof]
#[kani::unwind(10)]
fn c01_q_debug_addr_get_address() {
    let buf: [u8; 16] = kani::any();
    let s = DebugAddr::from(EndianSlice::new(&buf[..], any_endian()));
    let r = s.get_address(kani::any(), DebugAddrBase(kani::any()), DebugAddrIndex(kani::any()));
    kani::cover!(r.is_ok());
    kani::cover!(r.is_err());
}

#[kani::proof]
#[kani::unwind(10)]
fn c01_q_debug_str_offsets_get() {
    let buf: [u8; 16] = kani::any();
    let s = DebugStrOffsets::from(EndianSlice::new(&buf[..], any_endian()));
    let r = s.get_str_offset(any_format(), DebugStrOffsetsBase(kani::any()), DebugStrOffsetsIndex(kani::any()));
    kani::cover!(r.is_ok());
    kani::cover!(r.is_err());
}

#[kani::proof]
#[kani::unwind(10)]
fn c01_q_rnglists_get_offset() {
    let buf: [u8; 16] = kani::any();
    let e = any_endian();
    let rl = RangeLists::new(DebugRanges::new(&[], e), DebugRngLists::new(&buf[..], e));
    let enc = crate::c07::any_encoding();
    let r = rl.get_offset(enc, DebugRngListsBase(kani::any()), DebugRngListsIndex(kani::any()));
    kani::cover!(r.is_ok());
    kani::cover!(r.is_err());
}

#[kani::proof]
#[kani::unwind(10)]
fn c01_q_loclists_get_offset() {
    let buf: [u8; 16] = kani::any();
    let e = any_endian();
    let ll = LocationLists::new(DebugLoc::new(&[], e), DebugLocLists::new(&buf[..], e));
    let enc = crate::c07::any_encoding();
    let r = ll.get_offset(enc, DebugLocListsBase(kani::any()), DebugLocListsIndex(kani::any()));
    kani::cover!(r.is_ok());
    kani::cover!(r.is_err());
}

// ---- offset conversions on untrusted reference values ----
#[kani::proof]
fn c01_q_offset_conversions() {
    let e = LittleEndian;
    let buf = [0u8; 4];
    let enc = crate::c07::any_encoding();
    let uo: usize = kani::any();
    let ul: usize = kani::any();
    // a parsed header lies inside a section: offset + length cannot exceed isize::MAX
    kani::assume(uo <= (isize::MAX as usize) / 2 && ul <= (isize::MAX as usize) / 2);
    let in_types: bool = kani::any();
    let header = UnitHeader::new(
        enc,
        ul,
        UnitType::Compilation,
        DebugAbbrevOffset(0),
        if in_types { SectionId::DebugTypes } else { SectionId::DebugInfo },
        UnitSectionOffset(uo),
        EndianSlice::new(&buf[..], e),
    );
    // offsets of uncertain origin (any value an attribute can carry)
    let x: usize = kani::any();
    let inb = UnitOffset(x).is_in_bounds(&header);
    if inb {
        // documented precondition of the infallible conversions: the offset is in bounds
        let _ = UnitOffset(x).to_unit_section_offset(&header);
        let _ = UnitOffset(x).to_debug_info_offset(&header);
        let _ = UnitOffset(x).to_debug_types_offset(&header);
    }
    let _ = DebugInfoOffset(x).to_unit_offset(&header);
    let _ = DebugInfoOffset(x).to_unit_section_offset(&header);
    let _ = DebugTypesOffset(x).to_unit_offset(&header);
    let _ = UnitSectionOffset(x).to_unit_offset(&header);
    let _ = header.length_including_self();
    let _ = header.header_size();
    let _ = header.range_from(UnitOffset(x)..);
    let _ = header.range_to(..UnitOffset(x));
    kani::cover!(inb);
}

// ---- skipping attributes whose block length is extreme ----
#[kani::proof]
#[kani::unwind(14)]
fn c01_q_skip_block_then_fixed() {
    let buf: [u8; 12] = kani::any();
    let enc = crate::c07::any_encoding();
    let abbrevs = Abbreviations::default();
    let specs = [
        AttributeSpecification::new(DW_AT_location, DW_FORM_block, None),
        AttributeSpecification::new(DW_AT_byte_size, DW_FORM_data1, None),
        AttributeSpecification::new(DW_AT_decl_line, DW_FORM_data4, None),
    ];
    let mut raw = EntriesRaw::new(EndianSlice::new(&buf[..], any_endian()), enc, &abbrevs, UnitOffset(0));
    let r = raw.skip_attributes(&specs);
    kani::cover!(r.is_ok());
    kani::cover!(r.is_err());
}

#[kani::proof]
#[kani::unwind(14)]
fn c01_q_skip_exprloc_then_fixed() {
    let buf: [u8; 12] = kani::any();
    let enc = crate::c07::any_encoding();
    let abbrevs = Abbreviations::default();
    let specs = [
        AttributeSpecification::new(DW_AT_low_pc, DW_FORM_addr, None),
        AttributeSpecification::new(DW_AT_location, DW_FORM_exprloc, None),
        AttributeSpecification::new(DW_AT_byte_size, DW_FORM_data2, None),
    ];
    let mut raw = EntriesRaw::new(EndianSlice::new(&buf[..], any_endian()), enc, &abbrevs, UnitOffset(0));
    let r = raw.skip_attributes(&specs);
    kani::cover!(r.is_ok());
    kani::cover!(r.is_err());
}

// ---- .eh_frame_hdr binary search table: arbitrary count, arbitrary table bytes, arbitrary probe ----
// Lane "big": fde_count symbolic and > 8 (up to 2^64-1) over a 16-byte table: the first split must fail, which the
// unwinding assertion (unwind 2) proves; every arithmetic step on the untrusted count is covered.
// Lanes "n": fde_count concrete 1..4, table bytes / probe / bases symbolic, full binary search.
fn ehhdr(table_enc: u8, count: Option<u64>) {
    let mut buf: [u8; 36] = kani::any();
    buf[0] = 1;
    buf[1] = 0x04; // eh_frame_ptr: udata8
    buf[2] = 0x04; // fde_count: udata8
    buf[3] = table_enc;
    if let Some(c) = count {
        buf[12..20].copy_from_slice(&c.to_le_bytes());
    }
    let e = LittleEndian;
    let bases = any_bases();
    let hdr = EhFrameHdr::new(&buf[..], e);
    let Ok(parsed) = hdr.parse(&bases, 8) else { return };
    let Some(table) = parsed.table() else { return };
    if count.is_none() {
        let c = u64::from_le_bytes([buf[12], buf[13], buf[14], buf[15], buf[16], buf[17], buf[18], buf[19]]);
        kani::assume(c > 8);
    }
    let addr: u64 = kani::any();
    let r = table.lookup(addr, &bases);
    if let Ok(p) = r {
        let _ = table.pointer_to_offset(p);
    }
    kani::cover!(r.is_ok() || count.is_none());
}
#[kani::proof]
#[kani::unwind(2)]
fn c01_q_ehhdr_lookup_big_udata4() {
    ehhdr(0x03, None)
}
#[kani::proof]
#[kani::unwind(2)]
fn c01_q_ehhdr_lookup_big_sdata8() {
    ehhdr(0x0c, None)
}
#[kani::proof]
#[kani::unwind(4)]
fn c01_q_ehhdr_lookup_n2_udata4() {
    ehhdr(0x03, Some(2))
}
#[kani::proof]
#[kani::unwind(4)]
fn c01_t_ehhdr_lookup_n3_sdata4_datarel() {
    ehhdr(0x3b, Some(3))
}
#[kani::proof]
#[kani::unwind(4)]
fn c01_t_ehhdr_lookup_n1_udata2() {
    ehhdr(0x02, Some(1))
}
#[kani::proof]
fn c01_q_ehhdr_pointer_to_offset_and_nth() {
    let mut buf: [u8; 36] = kani::any();
    buf[0] = 1;
    buf[1] = 0x04;
    buf[2] = 0x04;
    buf[3] = 0x03;
    let bases = any_bases();
    let hdr = EhFrameHdr::new(&buf[..], LittleEndian);
    let Ok(parsed) = hdr.parse(&bases, 8) else { return };
    let Some(table) = parsed.table() else { return };
    let r = table.pointer_to_offset(Pointer::Direct(kani::any()));
    let _ = table.pointer_to_offset(Pointer::Indirect(kani::any()));
    let mut it = table.iter(&bases);
    let _ = it.nth(kani::any());
    kani::cover!(r.is_ok());
    kani::cover!(r.is_err());
}

// ---- .debug_aranges: concrete header skeleton (version / address size), arbitrary tuples ----
fn aranges<const N: usize>(address_size: u8, seg: u8, version: u8) {
    let mut buf: [u8; N] = kani::any();
    buf[0] = (N - 4) as u8;
    buf[1] = 0;
    buf[2] = 0;
    buf[3] = 0;
    buf[4] = version;
    buf[5] = 0;
    buf[10] = address_size;
    buf[11] = seg;
    let s = DebugAranges::new(&buf[..], LittleEndian);
    let mut hs = s.headers();
    let mut yielded = 0;
    match hs.next() {
        Ok(Some(h)) => {
            let mut es = h.entries();
                        // the set holds exactly one tuple (by construction of N): the second call must report exhaustion
            let r1 = es.next();
            if matches!(r1, Ok(Some(_))) {
                yielded += 1;
            }
            assert!(matches!(es.next(), Ok(None)), "aranges entry iteration not bounded by the input / not stopped after an error");
        }
        Ok(None) => {}
        Err(_) => {
            assert!(matches!(hs.next(), Ok(None)), "header iterator must stop after an error");
        }
    }
    kani::cover!(yielded >= 1 || address_size == 0 || address_size == 3 || address_size > 8 || seg != 0 || version != 2);
}
#[kani::proof]
#[kani::unwind(3)]
fn c01_q_aranges_a1() {
    aranges::<14>(1, 0, 2)
}
#[kani::proof]
#[kani::unwind(3)]
fn c01_q_aranges_a4() {
    aranges::<24>(4, 0, 2)
}
#[kani::proof]
#[kani::unwind(3)]
fn c01_q_aranges_a8_v3() {
    aranges::<32>(8, 0, 3)
}
#[kani::proof]
#[kani::unwind(3)]
fn c01_t_aranges_a2() {
    aranges::<16>(2, 0, 2)
}
