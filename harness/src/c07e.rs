//! C07 (c),(d) — evaluation equals the DWARF stack machine: generated straight-line programs (concrete opcodes,
//! symbolic operands) run on the real `Evaluation` with in-line storage; oracle = mvalue.rs arithmetic + the
//! control / location / suspension rules of DWARF 5 §2.5-2.6 written out per harness family below.
use crate::mattr::RawView;
use crate::mvalue::*;
use crate::util::*;
use gimli::*;

pub type Rd<'a> = PosLeb<'a, LittleEndian, 1>;

pub struct St;
impl<'a> EvaluationStorage<Rd<'a>> for St {
    type Stack = [Value; 4];
    type ExpressionStack = [(Rd<'a>, Rd<'a>); 1];
    type Result = [Piece<Rd<'a>>; 2];
}
pub type Ev<'a> = Evaluation<Rd<'a>, St>;

/// Build a program array by element assignment.  (An array *literal* with a symbolic element, e.g. `[0x90, r]`, is not
/// constant-folded by the symbolic executor when read back through a slice: the opcode byte would become symbolic.)
macro_rules! prog {
    ($($b:expr),* $(,)?) => {{
        const N: usize = [$(stringify!($b)),*].len();
        let mut p = [0u8; N];
        let mut i = 0;
        $( p[i] = $b; i += 1; )*
        let _ = i;
        p
    }};
}

pub fn any_enc() -> Encoding {
    crate::c07::any_encoding()
}
pub fn new_eval<'a>(prog: &'a [u8], enc: Encoding) -> Ev<'a> {
    Evaluation::new_in(Rd::new(prog, LittleEndian), enc)
}

fn sx8(b: u8) -> u64 {
    b as i8 as i64 as u64
}

/// the single result piece of a completed evaluation without DW_OP_piece: an address equal to the stack top
fn check_top<'a>(e: &Ev<'a>, want: V, mask: u64) {
    let vr = e.value_result();
    assert!(matches!(vr, Some(v) if V::from_gimli(v).same(want, mask)), "top of stack at the end of the expression");
    let ps = e.as_result();
    assert!(ps.len() == 1 && ps[0].size_in_bits.is_none() && ps[0].bit_offset.is_none());
    assert!(ps[0].location == Location::Address { address: want.bits & mask }, "result address");
}

/// [push a][push b][binary op]: `narrow` = operands pushed by DW_OP_const1s (sign-extended bytes; used for
/// mul/div/mod where 64-bit symbolic operands exceed the solver), else DW_OP_const8u.
pub fn eval_binop(prog: &[u8], op: Op, narrow: bool, twin: bool) {
    let enc = any_enc();
    let mask = mask_of(enc.address_size);
    let (a, b) = if narrow { (sx8(prog[1]), sx8(prog[3])) } else { (crate::c06::ui(prog, 1, 8), crate::c06::ui(prog, 10, 8)) };
    let mut e = new_eval(prog, enc);
    let got = e.evaluate();
    let want = binop(op, V::new(T::Generic, a), V::new(T::Generic, b), mask);
    match (got, want) {
        (Ok(EvaluationResult::Complete), Some(w)) => {
            check_top(&e, w, mask);
            if twin {
                assert!(w.bits == 5, "twin");
            }
        }
        (Err(_), None) => {}
        _ => assert!(false, "evaluation result / error differs from the stack machine"),
    }
    kani::cover!(want.is_some());
}

/// [push a][unary op]
pub fn eval_unop(prog: &[u8], op: Un) {
    let enc = any_enc();
    let mask = mask_of(enc.address_size);
    let a = crate::c06::ui(prog, 1, 8);
    let mut e = new_eval(prog, enc);
    let got = e.evaluate();
    match (got, unop(op, V::new(T::Generic, a), mask)) {
        (Ok(EvaluationResult::Complete), Some(w)) => check_top(&e, w, mask),
        (Err(_), None) => {}
        _ => assert!(false, "evaluation result / error differs from the stack machine"),
    }
    kani::cover!(true);
}

/// three pushes (const1u a, b, c) then a stack operation; `want(a,b,c)` = expected top of stack (None = error)
pub fn eval_stack3(prog: &[u8], want: fn(u64, u64, u64) -> Option<u64>) {
    let enc = any_enc();
    let mask = mask_of(enc.address_size);
    let (a, b, c) = (prog[1] as u64, prog[3] as u64, prog[5] as u64);
    let mut e = new_eval(prog, enc);
    let got = e.evaluate();
    match (got, want(a, b, c)) {
        (Ok(EvaluationResult::Complete), Some(w)) => check_top(&e, V::new(T::Generic, w), mask),
        (Err(err), None) => assert!(err == Error::NotEnoughStackItems || err == Error::StackFull),
        _ => assert!(false, "stack operation differs from the stack machine"),
    }
    kani::cover!(true);
}

/// expected outcome of a control-flow program, computed by the generator from the concrete layout:
/// `if_zero` / `if_nonzero`: Some(value) = completes with that top of stack, None = BadBranchTarget / error
pub fn eval_branch(prog: &[u8], cond_off: usize, if_zero: Option<u64>, if_nonzero: Option<u64>) {
    let enc = any_enc();
    let mask = mask_of(enc.address_size);
    let c = prog[cond_off] as u64;
    let mut e = new_eval(prog, enc);
    let got = e.evaluate();
    let want = if c == 0 { if_zero } else { if_nonzero };
    match (got, want) {
        (Ok(EvaluationResult::Complete), Some(w)) => check_top(&e, V::new(T::Generic, w), mask),
        (Err(_), None) => {}
        _ => assert!(false, "branch outcome differs from the stack machine"),
    }
    kani::cover!(c == 0);
    kani::cover!(c != 0);
}

/// a looping program under an iteration limit: must end with TooManyIterations (the unwinding assertion of the
/// harness bounds the number of operations executed by limit + 2)
pub fn eval_limit(prog: &[u8], limit: u32) {
    let enc = any_enc();
    let mut e = new_eval(prog, enc);
    e.set_max_iterations(limit);
    let got = e.evaluate();
    assert!(got == Err(Error::TooManyIterations), "iteration limit not enforced");
    // the error is sticky
    assert!(e.evaluate() == Err(Error::TooManyIterations));
}

/// a terminating straight-line program of `n_ops` operations completes iff the limit is at least n_ops
pub fn eval_limit_straight(prog: &[u8], n_ops: u32) {
    let enc = any_enc();
    let limit: u32 = kani::any();
    kani::assume(limit <= 6);
    let mut e = new_eval(prog, enc);
    e.set_max_iterations(limit);
    let got = e.evaluate();
    if limit >= n_ops {
        assert!(got == Ok(EvaluationResult::Complete));
    } else {
        assert!(got == Err(Error::TooManyIterations));
    }
    kani::cover!(limit == n_ops);
}

// ---- locations and pieces ----
#[kani::proof]
#[kani::unwind(8)]
fn c07_t_eval_register_location() {
    // DW_OP_reg5 ; and DW_OP_regx r
    let enc = any_enc();
    let prog = prog![0x55];
    let mut e = new_eval(&prog, enc);
    assert!(e.evaluate() == Ok(EvaluationResult::Complete));
    let ps = e.as_result();
    assert!(ps.len() == 1 && ps[0].location == Location::Register { register: Register(5) } && ps[0].size_in_bits.is_none());
    let r: u8 = kani::any();
    kani::assume(r < 0x80);
    let prog = prog![0x90, r];
    let mut e = new_eval(&prog, enc);
    assert!(e.evaluate() == Ok(EvaluationResult::Complete));
    assert!(e.as_result()[0].location == Location::Register { register: Register(r as u16) });
}

#[kani::proof]
#[kani::unwind(8)]
fn c07_t_eval_pieces() {
    // reg3 piece(n) ; lit7 stack_value piece(m)
    let enc = any_enc();
    let (n, m): (u8, u8) = (kani::any(), kani::any());
    kani::assume(n < 0x80 && m < 0x80);
    let prog = prog![0x53, 0x93, n, 0x37, 0x9f, 0x93, m];
    let mut e = new_eval(&prog, enc);
    assert!(e.evaluate() == Ok(EvaluationResult::Complete));
    let ps = e.as_result();
    assert!(ps.len() == 2);
    assert!(ps[0].location == Location::Register { register: Register(3) } && ps[0].size_in_bits == Some(8 * n as u64) && ps[0].bit_offset.is_none());
    assert!(ps[1].location == Location::Value { value: Value::Generic(7) } && ps[1].size_in_bits == Some(8 * m as u64));
}

#[kani::proof]
#[kani::unwind(8)]
fn c07_t_eval_location_then_garbage() {
    // a register location followed by anything but a piece is malformed
    let enc = any_enc();
    let prog = prog![0x53, 0x31];
    let mut e = new_eval(&prog, enc);
    assert!(matches!(e.evaluate(), Err(Error::InvalidExpressionTerminator(_))));
    // a piece followed by an unterminated location
    let prog = prog![0x53, 0x93, 4, 0x31];
    let mut e = new_eval(&prog, enc);
    assert!(e.evaluate() == Err(Error::InvalidPiece));
    // empty piece
    let prog = prog![0x93, 4];
    let mut e = new_eval(&prog, enc);
    assert!(e.evaluate() == Ok(EvaluationResult::Complete));
    assert!(e.as_result().len() == 1 && e.as_result()[0].location == Location::Empty);
}

// ---- suspensions: the evaluator asks for exactly what the operation names and continues from the answer ----
#[kani::proof]
#[kani::unwind(8)]
fn c07_t_eval_fbreg_breg_cfa() {
    let enc = any_enc();
    let mask = mask_of(enc.address_size);
    let o: u8 = kani::any();
    kani::assume(o < 0x80);
    let off = (((o & 0x7f) as i8) << 1 >> 1) as i64;
    // DW_OP_fbreg off
    let prog = prog![0x91, o];
    let mut e = new_eval(&prog, enc);
    assert!(e.evaluate() == Ok(EvaluationResult::RequiresFrameBase));
    let fb: u64 = kani::any();
    assert!(e.resume_with_frame_base(fb) == Ok(EvaluationResult::Complete));
    check_top(&e, V::new(T::Generic, fb.wrapping_add(off as u64)), mask);
    // DW_OP_breg7 off
    let prog = prog![0x77, o];
    let mut e = new_eval(&prog, enc);
    assert!(e.evaluate() == Ok(EvaluationResult::RequiresRegister { register: Register(7), base_type: UnitOffset(0) }));
    let rv: u64 = kani::any();
    assert!(e.resume_with_register(Value::Generic(rv)) == Ok(EvaluationResult::Complete));
    check_top(&e, V::new(T::Generic, rv.wrapping_add(off as u64)), mask);
    // DW_OP_call_frame_cfa ; DW_OP_plus_uconst o
    let prog = prog![0x9c, 0x23, o];
    let mut e = new_eval(&prog, enc);
    assert!(e.evaluate() == Ok(EvaluationResult::RequiresCallFrameCfa));
    let cfa: u64 = kani::any();
    assert!(e.resume_with_call_frame_cfa(cfa) == Ok(EvaluationResult::Complete));
    check_top(&e, V::new(T::Generic, cfa.wrapping_add(o as u64)), mask);
    kani::cover!(off < 0);
}

#[kani::proof]
#[kani::unwind(12)]
fn c07_t_eval_deref_addr() {
    let enc = any_enc();
    let mask = mask_of(enc.address_size);
    // DW_OP_const8u a ; DW_OP_deref ; DW_OP_lit1 ; DW_OP_plus
    let mut prog = [0u8; 12];
    prog[0] = 0x0e;
    let ab: [u8; 8] = kani::any();
    prog[1..9].copy_from_slice(&ab);
    prog[9] = 0x06;
    prog[10] = 0x31;
    prog[11] = 0x22;
    let a = u64::from_le_bytes(ab);
    let mut e = new_eval(&prog, enc);
    let r = e.evaluate();
    assert!(r == Ok(EvaluationResult::RequiresMemory { address: a & mask, size: enc.address_size, space: None, base_type: UnitOffset(0) }),
        "memory request names the popped address, the address size and no address space");
    let m: u64 = kani::any();
    assert!(e.resume_with_memory(Value::Generic(m)) == Ok(EvaluationResult::Complete));
    check_top(&e, V::new(T::Generic, m.wrapping_add(1)), mask);
    // DW_OP_deref_size with a size larger than an address is invalid
    let s: u8 = kani::any();
    let prog2 = prog![0x31, 0x94, s];
    let mut e = new_eval(&prog2, enc);
    let r = e.evaluate();
    if s > enc.address_size {
        assert!(r == Err(Error::InvalidDerefSize(s)));
    } else {
        assert!(r == Ok(EvaluationResult::RequiresMemory { address: 1, size: s, space: None, base_type: UnitOffset(0) }));
    }
    // DW_OP_push_object_address
    let prog3 = prog![0x97];
    let mut e = new_eval(&prog3, enc);
    assert!(e.evaluate() == Err(Error::InvalidPushObjectAddress));
    let mut e = new_eval(&prog3, enc);
    let oa: u64 = kani::any();
    e.set_object_address(oa);
    assert!(e.evaluate() == Ok(EvaluationResult::Complete));
    check_top(&e, V::new(T::Generic, oa), mask);
    kani::cover!(s > enc.address_size);
}

#[kani::proof]
#[kani::unwind(8)]
fn c07_q_eval_initial_value_and_empty() {
    let enc = any_enc();
    let mask = mask_of(enc.address_size);
    // empty expression with an initial value: the value is the result
    let prog: [u8; 0] = [];
    let mut e = new_eval(&prog, enc);
    let iv: u64 = kani::any();
    e.set_initial_value(iv);
    assert!(e.evaluate() == Ok(EvaluationResult::Complete));
    check_top(&e, V::new(T::Generic, iv), mask);
    // without one: nothing on the stack
    let mut e = new_eval(&prog, enc);
    assert!(e.evaluate() == Err(Error::NotEnoughStackItems));
    // DW_OP_nop ; DW_OP_lit9
    let prog = prog![0x96, 0x39];
    let mut e = new_eval(&prog, enc);
    assert!(e.evaluate() == Ok(EvaluationResult::Complete));
    check_top(&e, V::new(T::Generic, 9), mask);
}

/// nested calls: the caller continues after the callee ends - also when the callee's last operation is itself a call
/// (two finished frames are popped at once).  Control is concrete; the call operands are symbolic.
#[kani::proof]
#[kani::unwind(10)]
fn c07_t_eval_call_continues() {
    let enc = any_enc();
    let mask = mask_of(enc.address_size);
    // main: call2 x ; lit3 ; plus      A: lit4 ; call2 y      B: lit5 ; plus        => (4 + 5) + 3 = 12
    let o: [u8; 4] = kani::any();
    let mut prog = prog![0x98, 0, 0, 0x33, 0x22];
    prog[1] = o[0];
    prog[2] = o[1];
    let mut a = prog![0x34, 0x98, 0, 0];
    a[2] = o[2];
    a[3] = o[3];
    let b = prog![0x35, 0x22];
    let mut e = new_eval(&prog, enc);
    let r = e.evaluate();
    let Ok(EvaluationResult::RequiresAtLocation(DieReference::UnitRef(UnitOffset(x)))) = r else {
        assert!(false, "DW_OP_call2 must ask for the referenced location");
        return;
    };
    let r = e.resume_with_at_location(Rd::new(&a, LittleEndian));
    let Ok(EvaluationResult::RequiresAtLocation(DieReference::UnitRef(UnitOffset(y)))) = r else {
        assert!(false, "nested DW_OP_call2 must ask for the referenced location");
        return;
    };
    assert!(x == u16::from_le_bytes([o[0], o[1]]) as usize && y == u16::from_le_bytes([o[2], o[3]]) as usize, "call operands");
    let r = e.resume_with_at_location(Rd::new(&b, LittleEndian));
    let Ok(EvaluationResult::Complete) = r else {
        assert!(false, "evaluation continues in the callers and completes");
        return;
    };
    check_top(&e, V::new(T::Generic, 12), mask);
    kani::cover!(true);
}

/// an empty callee is skipped and the caller continues
#[kani::proof]
#[kani::unwind(10)]
fn c07_t_eval_call_empty_callee() {
    let enc = any_enc();
    let mask = mask_of(enc.address_size);
    let prog = prog![0x98, 0x34, 0x12, 0x33];
    let empty = prog![0x00];
    let mut e = new_eval(&prog, enc);
    let r = e.evaluate();
    let Ok(EvaluationResult::RequiresAtLocation(DieReference::UnitRef(UnitOffset(0x1234)))) = r else {
        assert!(false, "DW_OP_call2 must ask for the referenced location");
        return;
    };
    let r = e.resume_with_at_location(Rd::new(&empty[..0], LittleEndian));
    let Ok(EvaluationResult::Complete) = r else {
        assert!(false, "the caller continues after an empty callee");
        return;
    };
    check_top(&e, V::new(T::Generic, 3), mask);
    kani::cover!(true);
}

/// the iteration budget covers the whole evaluation, across calls and resumes.
/// main: call2 ; call2 ; lit1        callee: lit2 ; drop     => 3 + 2*2 = 7 operations; the limit is concrete per lane
/// (a symbolic limit forks the evaluator at every operation).
fn limit_across_calls(limit: u32, completes: bool) {
    let enc = any_enc();
    let prog = prog![0x98, 0, 0, 0x98, 0, 0, 0x31];
    let callee = prog![0x32, 0x13];
    let mut e = new_eval(&prog, enc);
    e.set_max_iterations(limit);
    let mut r = e.evaluate();
    if let Ok(EvaluationResult::RequiresAtLocation(_)) = r {
        r = e.resume_with_at_location(Rd::new(&callee, LittleEndian));
    }
    if let Ok(EvaluationResult::RequiresAtLocation(_)) = r {
        r = e.resume_with_at_location(Rd::new(&callee, LittleEndian));
    }
    if completes {
        assert!(matches!(r, Ok(EvaluationResult::Complete)), "a budget that covers all operations must not stop the evaluation");
    } else {
        assert!(matches!(r, Err(Error::TooManyIterations)), "the iteration limit must bound the whole evaluation");
    }
    kani::cover!(true);
}
#[kani::proof]
#[kani::unwind(12)]
fn c07_t_eval_limit_across_calls_6() {
    limit_across_calls(6, false);
}
#[kani::proof]
#[kani::unwind(12)]
fn c07_t_eval_limit_across_calls_7() {
    limit_across_calls(7, true);
}
#[kani::proof]
#[kani::unwind(12)]
fn c07_t_eval_limit_across_calls_3() {
    limit_across_calls(3, false);
}

