//! C07 — expression decoding and evaluation equal the DWARF stack machine.
//! (a) Value arithmetic: every operation, every (lhs type, rhs type) pair, full-width symbolic payloads,
//!     all four address masks, against the model in mvalue.rs.
use crate::mvalue::*;
use crate::util::*;
use gimli::{Value, ValueType};

fn any_t() -> T {
    let k: u8 = kani::any();
    kani::assume(k < 11);
    ALL_T[k as usize]
}
fn any_int_t() -> T {
    let k: u8 = kani::any();
    kani::assume(k < 9);
    ALL_T[k as usize]
}
fn any_mask() -> u64 {
    let k: u8 = kani::any();
    kani::assume(k < 4);
    mask_of(1u8 << k)
}

fn agree(got: gimli::Result<Value>, want: Option<V>, mask: u64) {
    match (got, want) {
        (Ok(g), Some(w)) => assert!(V::from_gimli(g).same(w, mask)),
        (Err(_), None) => {}
        _ => assert!(false, "result/err disagreement"),
    }
}

// ---- integer lanes, symbolic types on both sides (incl. every mismatched pair), all masks ----
macro_rules! binop_harness {
    ($name:ident, $twin:ident, $op:expr, $method:ident) => {
        #[kani::proof]
        fn $name() {
            let mask = any_mask();
            let a = V::new(any_int_t(), kani::any());
            let b = V::new(any_int_t(), kani::any());
            let got = a.to_gimli().$method(b.to_gimli(), mask);
            let want = binop($op, a, b, mask);
            agree(got, want, mask);
            kani::cover!(got.is_ok() && a.t == T::Generic && mask == 0xffff);
            kani::cover!(got.is_ok() && (a.t == T::I64 || a.t == T::U64));
            kani::cover!(got.is_err());
        }
        #[kani::proof]
        fn $twin() {
            let mask = any_mask();
            let a = V::new(any_int_t(), kani::any());
            let b = V::new(any_int_t(), kani::any());
            let got = a.to_gimli().$method(b.to_gimli(), mask);
            if let Ok(g) = got {
                assert!(V::from_gimli(g).bits != 0x55, "twin");
            }
        }
    };
}

binop_harness!(c07_q_val_add, c07_t_val_add_twin, Op::Add, add);
binop_harness!(c07_q_val_sub, c07_t_val_sub_twin, Op::Sub, sub);
binop_harness!(c07_q_val_and, c07_t_val_and_twin, Op::And, and);
binop_harness!(c07_q_val_or, c07_t_val_or_twin, Op::Or, or);
binop_harness!(c07_q_val_xor, c07_t_val_xor_twin, Op::Xor, xor);
binop_harness!(c07_q_val_shl, c07_q_val_shl_twin, Op::Shl, shl);
binop_harness!(c07_q_val_shr, c07_t_val_shr_twin, Op::Shr, shr);
binop_harness!(c07_q_val_shra, c07_t_val_shra_twin, Op::Shra, shra);
binop_harness!(c07_q_val_eq, c07_t_val_eq_twin, Op::Eq, eq);
binop_harness!(c07_q_val_ge, c07_t_val_ge_twin, Op::Ge, ge);
binop_harness!(c07_q_val_gt, c07_t_val_gt_twin, Op::Gt, gt);
binop_harness!(c07_q_val_le, c07_t_val_le_twin, Op::Le, le);
binop_harness!(c07_q_val_lt, c07_t_val_lt_twin, Op::Lt, lt);
binop_harness!(c07_q_val_ne, c07_t_val_ne_twin, Op::Ne, ne);

// ---- unary ----
macro_rules! unop_harness {
    ($name:ident, $op:expr, $method:ident) => {
        #[kani::proof]
        fn $name() {
            let mask = any_mask();
            let a = V::new(any_int_t(), kani::any());
            let got = a.to_gimli().$method(mask);
            agree(got, unop($op, a, mask), mask);
            kani::cover!(got.is_ok() && a.t == T::Generic && mask == 0xff);
            kani::cover!(got.is_ok() && a.t == T::I16);
        }
    };
}
unop_harness!(c07_q_val_abs, Un::Abs, abs);
unop_harness!(c07_q_val_neg, Un::Neg, neg);
unop_harness!(c07_q_val_not, Un::Not, not);

#[kani::proof]
fn c07_q_val_convert_reinterpret() {
    let mask = any_mask();
    let a = V::new(any_int_t(), kani::any());
    let to = any_int_t();
    agree(a.to_gimli().convert(to.to_gimli(), mask), convert_int(a, to, mask), mask);
    let a2 = V::new(any_t(), kani::any());
    let to2 = any_t();
    agree(a2.to_gimli().reinterpret(to2.to_gimli(), mask), reinterpret(a2, to2, mask), mask);
    // to_u64 / from_u64 / value_type / bit_size
    let g = a.to_gimli();
    assert!(g.value_type() == a.t.to_gimli());
    assert!(a.t.to_gimli().bit_size(mask) == a.t.width(mask));
    assert!(to2.to_gimli().bit_size(mask) == to2.width(mask));
    match g.to_u64(mask) {
        Ok(x) => {
            // sign-extended if signed, address-masked if generic
            let want = if a.t.is_signed_int() { a.s(mask) as i64 as u64 } else { a.u(mask) as u64 };
            assert!(x == want);
        }
        Err(_) => assert!(false),
    }
    assert!(a2.to_gimli().to_u64(mask).is_err() == a2.t.is_float());
    let raw: u64 = kani::any();
    if !to.is_float() {
        let v = Value::from_u64(to.to_gimli(), raw).unwrap();
        assert!(V::from_gimli(v).same(V::new(to, raw), mask));
    }
    kani::cover!(a.t == T::I8 && to == T::U64);
    kani::cover!(a2.t == T::F32 && to2 == T::U32);
    kani::cover!(a2.t == T::Generic && to2 == T::F64 && mask == !0);
}

// ---- mul / div / rem: per concrete lane; 8-bit lanes fully symbolic, wider lanes with one operand
//      ranging over boundary constants and the other fully symbolic (both orders) ----
const K: [u64; 10] = [0, 1, 2, 3, 10, 0x7f, 0x80, 0xff, 0x7fff_ffff_ffff_ffff, 0xffff_ffff_ffff_fffd];
fn lane_consts(t: T, mask: u64, i: usize) -> u64 {
    // boundary constants of the lane: 0, 1, 2, 3, 10, MAX, MIN, -1, and the 64-bit extremes truncated
    let w = t.width(mask);
    let m = if w == 64 { !0u64 } else { (1u64 << w) - 1 };
    match i {
        5 => m >> 1,           // signed MAX
        6 => (m >> 1) + 1,     // signed MIN
        7 => m,                // -1 / unsigned MAX
        _ => K[i] & m,
    }
}

macro_rules! muldiv_lane {
    ($name:ident, $t:expr, $mask:expr, $op:expr, $method:ident, full) => {
        #[kani::proof]
        fn $name() {
            let (t, mask) = ($t, $mask);
            let a = V::new(t, kani::any());
            let b = V::new(t, kani::any());
            agree(a.to_gimli().$method(b.to_gimli(), mask), binop($op, a, b, mask), mask);
            kani::cover!(a.bits & 0xff > 3 && b.bits & 0xff > 3);
        }
    };
    ($name:ident, $t:expr, $mask:expr, $op:expr, $method:ident, consts) => {
        // symbolic lhs, every boundary constant as rhs
        #[kani::proof]
        #[kani::unwind(12)]
        fn $name() {
            let (t, mask) = ($t, $mask);
            let mut i = 0;
            while i < 10 {
                let c = V::new(t, lane_consts(t, mask, i) | if t == T::Generic { !mask & 0xa5a5_0000_0000_0000 } else { 0 });
                let x = V::new(t, kani::any());
                agree(x.to_gimli().$method(c.to_gimli(), mask), binop($op, x, c, mask), mask);
                i += 1;
            }
            kani::cover!(true);
        }
    };
    ($name:ident, $t:expr, $mask:expr, $op:expr, $method:ident, wide) => {
        muldiv_lane!($name, $t, $mask, $op, $method, [1usize, 2, 6, 7, 0]);
    };
    ($name:ident, $t:expr, $mask:expr, $op:expr, $method:ident, widemul) => {
        // multiplication by -1 / MAX needs all partial products: only {1, 2, 3, MIN, 0} symbolically
        muldiv_lane!($name, $t, $mask, $op, $method, [1usize, 2, 3, 6, 0]);
    };
    ($name:ident, $t:expr, $mask:expr, $op:expr, $method:ident, [$($idx:expr),*]) => {
        // lanes of 32/64 bits: symbolic lhs (incl. junk above the address mask) against rhs in {1, 2, MIN, -1}
        // (circuits that stay small), plus the full 10x10 grid of boundary constants evaluated concretely.
        #[kani::proof]
        #[kani::unwind(12)]
        fn $name() {
            let (t, mask) = ($t, $mask);
            let junk = if t == T::Generic { !mask & 0xa5a5_0000_0000_0000 } else { 0 };
            for i in [$($idx),*] {
                let c = V::new(t, lane_consts(t, mask, i) | junk);
                let x = V::new(t, kani::any());
                agree(x.to_gimli().$method(c.to_gimli(), mask), binop($op, x, c, mask), mask);
            }
            let mut i = 0;
            while i < 10 {
                let mut j = 0;
                while j < 10 {
                    let a = V::new(t, lane_consts(t, mask, i) | junk);
                    let b = V::new(t, lane_consts(t, mask, j) | junk);
                    agree(a.to_gimli().$method(b.to_gimli(), mask), binop($op, a, b, mask), mask);
                    j += 1;
                }
                i += 1;
            }
            kani::cover!(true);
        }
    };
    ($name:ident, $t:expr, $mask:expr, $op:expr, $method:ident, lconsts) => {
        // every boundary constant as lhs, symbolic rhs
        #[kani::proof]
        #[kani::unwind(12)]
        fn $name() {
            let (t, mask) = ($t, $mask);
            let mut i = 0;
            while i < 10 {
                let c = V::new(t, lane_consts(t, mask, i) | if t == T::Generic { !mask & 0xa5a5_0000_0000_0000 } else { 0 });
                let y = V::new(t, kani::any());
                agree(c.to_gimli().$method(y.to_gimli(), mask), binop($op, c, y, mask), mask);
                i += 1;
            }
            kani::cover!(true);
        }
    };
}
macro_rules! muldiv_all {
    ($op:expr, $method:ident, $($name:ident: $t:expr, $mask:expr, $mode:ident;)*) => {
        $( muldiv_lane!($name, $t, $mask, $op, $method, $mode); )*
    };
}
muldiv_all!(Op::Mul, mul,
    c07_q_mul_g1: T::Generic, 0xff, full; c07_q_mul_i8: T::I8, !0, full; c07_q_mul_u8: T::U8, !0, full;
    c07_t_mul_g2: T::Generic, 0xffff, consts; c07_q_mul_g4: T::Generic, 0xffff_ffff, widemul; c07_q_mul_g8: T::Generic, !0, widemul;
    c07_t_mul_i16: T::I16, !0, consts; c07_t_mul_u16: T::U16, !0, consts; c07_t_mul_i32: T::I32, !0, widemul;
    c07_t_mul_u32: T::U32, !0, widemul; c07_q_mul_i64: T::I64, !0, widemul; c07_t_mul_u64: T::U64, !0, widemul;
);
muldiv_all!(Op::Div, div,
    c07_q_div_g1: T::Generic, 0xff, full; c07_q_div_i8: T::I8, !0, full; c07_q_div_u8: T::U8, !0, full;
    c07_t_div_g2: T::Generic, 0xffff, consts; c07_q_div_g4: T::Generic, 0xffff_ffff, wide; c07_q_div_g8: T::Generic, !0, wide;
    c07_t_div_i16: T::I16, !0, consts; c07_t_div_u16: T::U16, !0, consts; c07_t_div_i32: T::I32, !0, wide;
    c07_t_div_u32: T::U32, !0, wide; c07_q_div_i64: T::I64, !0, wide; c07_t_div_u64: T::U64, !0, wide;
);
muldiv_all!(Op::Rem, rem,
    c07_q_rem_g1: T::Generic, 0xff, full; c07_q_rem_i8: T::I8, !0, full; c07_q_rem_u8: T::U8, !0, full;
    c07_t_rem_g2: T::Generic, 0xffff, consts; c07_q_rem_g4: T::Generic, 0xffff_ffff, wide; c07_q_rem_g8: T::Generic, !0, wide;
    c07_t_rem_i16: T::I16, !0, consts; c07_t_rem_u16: T::U16, !0, consts; c07_t_rem_i32: T::I32, !0, wide;
    c07_t_rem_u32: T::U32, !0, wide; c07_q_rem_i64: T::I64, !0, wide; c07_t_rem_u64: T::U64, !0, wide;
);

// mismatched operand types for mul/div/rem are errors (every pair, symbolic)
#[kani::proof]
fn c07_q_muldivrem_mismatch() {
    let mask = any_mask();
    let (ta, tb) = (any_t(), any_t());
    kani::assume(ta != tb);
    let a = V::new(ta, kani::any()).to_gimli();
    let b = V::new(tb, kani::any()).to_gimli();
    assert!(a.mul(b, mask).is_err());
    assert!(a.div(b, mask).is_err());
    assert!(a.rem(b, mask).is_err());
    assert!(a.add(b, mask).is_err());
    assert!(a.eq(b, mask).is_err());
    kani::cover!(ta == T::F32 && tb == T::Generic);
}

// ------------------------------------------------------------------------------------------------
// (b) Operation::parse: one harness per opcode byte (generated in gen/c07_gen.rs); 19 symbolic operand
//     bytes, byte order / version / format / address size symbolic; oracle = mop::model_parse.
// ------------------------------------------------------------------------------------------------
use crate::mop::model_parse;
use gimli::{Encoding, EndianSlice, Format, Operation, Reader};

pub fn any_encoding() -> Encoding {
    let v: u16 = kani::any();
    kani::assume(v >= 2 && v <= 5);
    let k: u8 = kani::any();
    kani::assume(k < 4);
    Encoding { format: if kani::any() { Format::Dwarf64 } else { Format::Dwarf32 }, version: v, address_size: 1u8 << k }
}

fn same_view<E: gimli::Endianity>(a: EndianSlice<'_, E>, b: EndianSlice<'_, E>) -> bool {
    a.slice().as_ptr() == b.slice().as_ptr() && a.len() == b.len()
}

pub fn op_same<'a, E: gimli::Endianity>(g: Operation<EndianSlice<'a, E>>, w: Operation<EndianSlice<'a, E>>) -> bool {
    match (g, w) {
        (Operation::ImplicitValue { data: a }, Operation::ImplicitValue { data: b }) => same_view(a, b),
        (Operation::EntryValue { expression: a }, Operation::EntryValue { expression: b }) => same_view(a, b),
        (Operation::TypedLiteral { base_type: ta, value: a }, Operation::TypedLiteral { base_type: tb, value: b }) => ta == tb && same_view(a, b),
        (Operation::ImplicitValue { .. }, _) | (Operation::EntryValue { .. }, _) | (Operation::TypedLiteral { .. }, _) => false,
        (_, Operation::ImplicitValue { .. }) | (_, Operation::EntryValue { .. }) | (_, Operation::TypedLiteral { .. }) => false,
        (g, w) => g == w,
    }
}

pub fn check_op_parse(opcode: u8, twin: bool) {
    let mut buf: [u8; 20] = kani::any();
    buf[0] = opcode;
    let e = any_endian();
    let enc = any_encoding();
    let mut r = EndianSlice::new(&buf[..], e);
    let got = Operation::parse(&mut r, enc);
    let want = model_parse(&buf[..], e, enc);
    match (got, want) {
        (Ok(g), Some((w, n))) => {
            assert!(op_same(g, w), "decoded operation differs from the standard's");
            assert!(r.len() == 20 - n, "bytes consumed");
            if twin {
                assert!(n == 21, "twin");
            }
        }
        (Err(_), None) => {
            if twin {
                assert!(false, "twin");
            }
        }
        (Ok(_), None) => assert!(false, "accepted an operation the standard rejects"),
        (Err(_), Some(_)) => assert!(false, "rejected a well-formed operation"),
    }
    kani::cover!(true);
}
