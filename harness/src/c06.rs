//! C06 — unwind table rows equal DWARF call-frame semantics.
//! Skeleton harness: one version-1 CIE + one FDE in `.debug_frame`; opcode bytes and register numbers concrete,
//! all operands / alignment factors / addresses symbolic; the first row produced by the real `UnwindTable` is
//! compared with the reference interpreter in mcfi.rs.  Custom in-line storage (3 rules, 3 rows) so that the
//! storage limits are reachable.
use crate::mattr::RawView;
use crate::mcfi::*;
use crate::util::*;
use gimli::*;

pub struct Store3;
impl UnwindContextStorage<usize> for Store3 {
    type Rules = [(Register, RegisterRule<usize>); 3];
    type Stack = [UnwindTableRow<usize, Self>; 3];
}
pub const RULE_CAP: usize = 3;
pub const STACK_CAP: usize = 3;


fn rule_same(g: Option<RegisterRule<usize>>, m: Option<MRule>) -> bool {
    match (g, m) {
        (None, None) => true,
        (Some(RegisterRule::Undefined), Some(MRule::Undefined)) => true,
        (Some(RegisterRule::SameValue), Some(MRule::SameValue)) => true,
        (Some(RegisterRule::Offset(a)), Some(MRule::Offset(b))) => a == b,
        (Some(RegisterRule::ValOffset(a)), Some(MRule::ValOffset(b))) => a == b,
        (Some(RegisterRule::Register(a)), Some(MRule::Register(b))) => a.0 == b,
        (Some(RegisterRule::Expression(e)), Some(MRule::Expression(o, l))) => e.offset == o && e.length == l,
        (Some(RegisterRule::ValExpression(e)), Some(MRule::ValExpression(o, l))) => e.offset == o && e.length == l,
        (Some(RegisterRule::Constant(a)), Some(MRule::Constant(b))) => a == b,
        _ => false,
    }
}

fn err_same(e: Error, m: MErr) -> bool {
    match m {
        MErr::InvalidContext => e == Error::CfiInstructionInInvalidContext,
        MErr::PopWithEmptyStack => e == Error::PopWithEmptyStack,
        MErr::StackFull => e == Error::StackFull,
        MErr::TooManyRules => e == Error::TooManyRegisterRules,
        MErr::SetLocBackwards => matches!(e, Error::InvalidCfiSetLoc(_)),
        MErr::AddressOverflow => e == Error::AddressOverflow,
        MErr::UnknownInstruction => matches!(e, Error::UnknownCallFrameInstruction(_)),
        MErr::OutOfModel => true,
    }
}

/// registers whose rule is compared (skeleton registers are drawn from this set)
pub const REGS: [u16; 6] = [0, 7, 16, 33, 34, 1000];

/// K-byte ULEB128 / SLEB128 at a literal offset, loop-free and narrow (so that the solver sees the constant-zero
/// high bits: products of such operands stay cheap).  K <= 2.
pub fn ul(buf: &[u8], off: usize, k: usize) -> u64 {
    if k == 1 {
        (buf[off] & 0x7f) as u64
    } else {
        (buf[off] & 0x7f) as u64 | ((buf[off + 1] & 0x7f) as u64) << 7
    }
}
pub fn sl(buf: &[u8], off: usize, k: usize) -> i64 {
    if k == 1 {
        (((buf[off] & 0x7f) as i8) << 1 >> 1) as i64
    } else {
        let v = (buf[off] & 0x7f) as i16 | ((buf[off + 1] & 0x7f) as i16) << 7;
        ((v << 2) >> 2) as i64
    }
}
pub fn ui(buf: &[u8], off: usize, n: usize) -> u64 {
    // loop-free little-endian read (keeps the harness's unwind bound independent of operand widths)
    let b = |i: usize| buf[off + i] as u64;
    match n {
        1 => b(0),
        2 => b(0) | b(1) << 8,
        4 => b(0) | b(1) << 8 | b(2) << 16 | b(3) << 24,
        _ => b(0) | b(1) << 8 | b(2) << 16 | b(3) << 24 | b(4) << 32 | b(5) << 40 | b(6) << 48 | b(7) << 56,
    }
}

macro_rules! def_row_check {
    ($fname:ident, $k:expr) => {
        /// First row of the FDE: real `UnwindTable` vs the model run `r`.
        pub fn $fname(buf: &[u8], fde_off: usize, asz: usize, ca: u64, da: i64, ra: u8, init_loc: u64, range: u64, r: &Run, aarch64: bool, twin: bool) {
            const K: usize = $k;
            let want = r.finish(init_loc, range);
            let m = &r.m;
            let mut section = DebugFrame::from(FixLeb::<LittleEndian, K>::new(buf, LittleEndian));
            section.set_address_size(asz as u8);
            if aarch64 {
                section.set_vendor(Vendor::AArch64);
            }
            let bases = BaseAddresses::default();
            let fde_entry = section.fde_from_offset(&bases, DebugFrameOffset(fde_off), DebugFrame::cie_from_offset);
            let Ok(fde_entry) = fde_entry else {
                assert!(false, "well-formed CIE/FDE rejected");
                return;
            };
            // decoded header fields equal the encoded ones
            assert!(
                fde_entry.cie().code_alignment_factor() == ca
                    && fde_entry.cie().data_alignment_factor() == da
                    && fde_entry.cie().return_address_register() == Register(ra as u16)
                    && fde_entry.initial_address() == init_loc
                    && fde_entry.len() == range,
                "decoded CIE/FDE header fields"
            );

            let mut ctx: UnwindContext<usize, Store3> = UnwindContext::new_in();
            let table = fde_entry.rows(&section, &bases, &mut ctx);
            let got = match table {
                Err(e) => Err(e),
                Ok(mut t) => match t.next_row() {
                    Err(e) => Err(e),
                    Ok(None) => {
                        assert!(false, "no row produced");
                        return;
                    }
                    Ok(Some(row)) => {
                        if let Ok((s, e)) = want {
                            // one combined obligation (each separate assert costs a solver call on this code)
                            let cfa_ok = match (row.cfa(), m.state.cfa) {
                                (CfaRule::RegisterAndOffset { register, offset }, MCfa::RegOff(r, o)) => register.0 == r && *offset == o,
                                (CfaRule::Expression(x), MCfa::Expr(o, l)) => x.offset == o && x.length == l,
                                _ => false,
                            };
                            let same = row.start_address() == s
                                && row.end_address() == e
                                && row.saved_args_size() == m.state.args_size
                                && cfa_ok
                                && rule_same(row.register(Register(0)), m.state.get(0))
                                && rule_same(row.register(Register(7)), m.state.get(7))
                                && rule_same(row.register(Register(16)), m.state.get(16))
                                && rule_same(row.register(Register(33)), m.state.get(33))
                                && rule_same(row.register(Register(34)), m.state.get(34))
                                && rule_same(row.register(Register(1000)), m.state.get(1000))
                                && row.registers().count() == m.state.count();
                            assert!(same, "unwind row (start, end, CFA, register rules, args size) differs from the call-frame semantics");
                            if twin {
                                assert!(row.end_address() == 0x77, "twin");
                            }
                        }
                        Ok(())
                    }
                },
            };
            match (got, want) {
                (Ok(()), Ok(_)) => {}
                (Err(e), Err(me)) => assert!(err_same(e, me), "wrong error kind"),
                (Ok(()), Err(MErr::OutOfModel)) => {}
                (Ok(()), Err(_)) => assert!(false, "a row was produced where the semantics demand an error"),
                (Err(_), Ok(_)) => assert!(false, "error where the semantics define a row"),
            }
            kani::cover!(got.is_ok() == want.is_ok());
        }
    };
}
def_row_check!(row_check_k1, 1);

macro_rules! def_cie_fail_check {
    ($fname:ident, $k:expr) => {
        /// Skeletons whose CIE initial instructions are statically invalid (DW_CFA_restore* there, restore_state on an
        /// empty stack, a third remember_state, an unknown opcode): `rows()` itself must fail with the model's error.
        /// The table is not evaluated on the (infeasible) success arm: the symbolic executor would otherwise walk it
        /// with an unconstrained context.
        pub fn $fname(buf: &[u8], fde_off: usize, asz: usize, ca: u64, da: i64, ra: u8, init_loc: u64, range: u64, r: &Run, aarch64: bool, twin: bool) {
            const K: usize = $k;
            let want = r.finish(init_loc, range);
            let mut section = DebugFrame::from(FixLeb::<LittleEndian, K>::new(buf, LittleEndian));
            section.set_address_size(asz as u8);
            if aarch64 {
                section.set_vendor(Vendor::AArch64);
            }
            let bases = BaseAddresses::default();
            let Ok(fde_entry) = section.fde_from_offset(&bases, DebugFrameOffset(fde_off), DebugFrame::cie_from_offset) else {
                assert!(false, "well-formed CIE/FDE rejected");
                return;
            };
            assert!(
                fde_entry.cie().code_alignment_factor() == ca
                    && fde_entry.cie().data_alignment_factor() == da
                    && fde_entry.cie().return_address_register() == Register(ra as u16)
                    && fde_entry.initial_address() == init_loc
                    && fde_entry.len() == range,
                "decoded CIE/FDE header fields"
            );
            let mut ctx: UnwindContext<usize, Store3> = UnwindContext::new_in();
            let got = match fde_entry.rows(&section, &bases, &mut ctx) {
                Err(e) => Some(e),
                Ok(_) => None,
            };
            match (got, want) {
                (Some(e), Err(me)) => assert!(err_same(e, me) && !twin, "wrong error kind"),
                (_, Err(MErr::OutOfModel)) => {}
                (None, Err(_)) => assert!(false, "a row table was produced where the CIE's initial instructions are invalid"),
                (_, Ok(_)) => assert!(false, "skeleton classified as statically invalid but the model accepts it"),
            }
            kani::cover!(got.is_some());
        }
    };
}
def_cie_fail_check!(cie_fail_check_k1, 1);
def_cie_fail_check!(cie_fail_check_k2, 2);

def_row_check!(row_check_k2, 2);
