//! Reference decoder for attribute forms, written from DWARF 5 §7.5.4-7.5.6 (Table 7.5/7.6), the DWARF 2/3
//! legacy rules (data4/data8 as section offsets; address-sized DW_FORM_ref_addr in version 2) and the GNU forms.
use crate::mop::Cur;
use crate::util::*;
use gimli::*;

pub const FORMS: [u16; 49] = [
    0x01, 0x03, 0x04, 0x05, 0x06, 0x07, 0x08, 0x09, 0x0a, 0x0b, 0x0c, 0x0d, 0x0e, 0x0f, 0x10, 0x11, 0x12, 0x13, 0x14, 0x15, 0x16,
    0x17, 0x18, 0x19, 0x1a, 0x1b, 0x1c, 0x1d, 0x1e, 0x1f, 0x20, 0x21, 0x22, 0x23, 0x24, 0x25, 0x26, 0x27, 0x28, 0x29, 0x2a, 0x2b,
    0x2c, 0x1f01, 0x1f02, 0x1f20, 0x1f21, 0x00, 0x02,
];

/// Attributes whose DW_FORM_data4 (32-bit DWARF) / DW_FORM_data8 (64-bit DWARF) values are section offsets
/// (lineptr / loclistptr / macptr / rangelistptr classes of DWARF 2 and 3).
pub fn legacy_offset_attr(name: u16, version: u16) -> bool {
    match name {
        0x02 | 0x10 | 0x19 | 0x2a | 0x2c | 0x40 | 0x43 | 0x79 | 0x46 | 0x48 | 0x4a | 0x4d | 0x55 => true,
        0x38 => version == 2 || version == 3,
        _ => false,
    }
}

pub type AV<'a, E> = AttributeValue<EndianSlice<'a, E>>;

/// Decode one attribute value of form `form` at `buf[0..]`.  Returns the value and the bytes it occupies;
/// `None` = malformed (unknown form, truncated, operand out of range, implicit_const without a constant).
pub fn model_attr<'a, E: Endianity>(
    buf: &'a [u8],
    endian: E,
    enc: Encoding,
    name: u16,
    form: u16,
    implicit: Option<i64>,
    depth: u32,
) -> Option<(AV<'a, E>, usize)> {
    let mut c = Cur { buf, pos: 0, big: endian.is_big_endian() };
    let sl = |r: (usize, usize)| EndianSlice::new(&buf[r.0..r.0 + r.1], endian);
    let word = if enc.format == Format::Dwarf64 { 8 } else { 4 };
    let v = match form {
        0x01 => AttributeValue::Addr(c.addr(enc.address_size)?),
        0x03 => {
            let n = c.u(2)?;
            AttributeValue::Block(sl(c.block(n)?))
        }
        0x04 => {
            let n = c.u(4)?;
            AttributeValue::Block(sl(c.block(n)?))
        }
        0x05 => AttributeValue::Data2(c.u(2)? as u16),
        0x06 => {
            let x = c.u(4)?;
            if enc.format == Format::Dwarf32 && legacy_offset_attr(name, enc.version) {
                AttributeValue::SecOffset(x as usize)
            } else {
                AttributeValue::Data4(x as u32)
            }
        }
        0x07 => {
            let x = c.u(8)?;
            if enc.format == Format::Dwarf64 && legacy_offset_attr(name, enc.version) {
                AttributeValue::SecOffset(x as usize)
            } else {
                AttributeValue::Data8(x)
            }
        }
        0x08 => {
            // null-terminated string
            let mut n = 0;
            while n < buf.len() && buf[n] != 0 {
                n += 1;
            }
            if n == buf.len() {
                return None;
            }
            c.pos = n + 1;
            AttributeValue::String(sl((0, n)))
        }
        0x09 => {
            let n = c.uleb()?;
            AttributeValue::Block(sl(c.block(n)?))
        }
        0x0a => {
            let n = c.u(1)?;
            AttributeValue::Block(sl(c.block(n)?))
        }
        0x0b => AttributeValue::Data1(c.u(1)? as u8),
        0x0c => AttributeValue::Flag(c.u(1)? != 0),
        0x0d => AttributeValue::Sdata(c.sleb()?),
        0x0e => AttributeValue::DebugStrRef(DebugStrOffset(c.u(word)? as usize)),
        0x0f => AttributeValue::Udata(c.uleb()?),
        0x10 => {
            let o = if enc.version == 2 { c.addr(enc.address_size)? } else { c.u(word)? };
            AttributeValue::DebugInfoRef(DebugInfoOffset(o as usize))
        }
        0x11 => AttributeValue::UnitRef(UnitOffset(c.u(1)? as usize)),
        0x12 => AttributeValue::UnitRef(UnitOffset(c.u(2)? as usize)),
        0x13 => AttributeValue::UnitRef(UnitOffset(c.u(4)? as usize)),
        0x14 => AttributeValue::UnitRef(UnitOffset(c.u(8)? as usize)),
        0x15 => AttributeValue::UnitRef(UnitOffset(c.uleb()? as usize)),
        0x16 => {
            // DW_FORM_indirect: ULEB128 form code, then the value in that form
            if depth == 0 {
                return None; // bound of the model (harnesses nest at most twice)
            }
            let f = c.uleb()?;
            if f > 0xffff {
                return None;
            }
            let (v, n) = model_attr(&buf[c.pos..], endian, enc, name, f as u16, None, depth - 1)?;
            return Some((v, c.pos + n));
        }
        0x17 => AttributeValue::SecOffset(c.u(word)? as usize),
        0x18 => {
            let n = c.uleb()?;
            AttributeValue::Exprloc(Expression(sl(c.block(n)?)))
        }
        0x19 => AttributeValue::Flag(true),
        0x1a | 0x1f02 => AttributeValue::DebugStrOffsetsIndex(DebugStrOffsetsIndex(c.uleb()? as usize)),
        0x1b | 0x1f01 => AttributeValue::DebugAddrIndex(DebugAddrIndex(c.uleb()? as usize)),
        0x1c => AttributeValue::DebugInfoRefSup(DebugInfoOffset(c.u(4)? as usize)),
        0x1d | 0x1f21 => AttributeValue::DebugStrRefSup(DebugStrOffset(c.u(word)? as usize)),
        0x1e => {
            if buf.len() < 16 {
                return None;
            }
            c.pos = 16;
            AttributeValue::Data16(ref_uint(buf, 16, endian.is_big_endian()))
        }
        0x1f => AttributeValue::DebugLineStrRef(DebugLineStrOffset(c.u(word)? as usize)),
        0x20 => AttributeValue::DebugTypesRef(DebugTypeSignature(c.u(8)?)),
        0x21 => AttributeValue::Sdata(implicit?),
        0x22 => AttributeValue::DebugLocListsIndex(DebugLocListsIndex(c.uleb()? as usize)),
        0x23 => AttributeValue::DebugRngListsIndex(DebugRngListsIndex(c.uleb()? as usize)),
        0x24 => AttributeValue::DebugInfoRefSup(DebugInfoOffset(c.u(8)? as usize)),
        0x25 => AttributeValue::DebugStrOffsetsIndex(DebugStrOffsetsIndex(c.u(1)? as usize)),
        0x26 => AttributeValue::DebugStrOffsetsIndex(DebugStrOffsetsIndex(c.u(2)? as usize)),
        0x27 => AttributeValue::DebugStrOffsetsIndex(DebugStrOffsetsIndex(c.u(3)? as usize)),
        0x28 => AttributeValue::DebugStrOffsetsIndex(DebugStrOffsetsIndex(c.u(4)? as usize)),
        0x29 => AttributeValue::DebugAddrIndex(DebugAddrIndex(c.u(1)? as usize)),
        0x2a => AttributeValue::DebugAddrIndex(DebugAddrIndex(c.u(2)? as usize)),
        0x2b => AttributeValue::DebugAddrIndex(DebugAddrIndex(c.u(3)? as usize)),
        0x2c => AttributeValue::DebugAddrIndex(DebugAddrIndex(c.u(4)? as usize)),
        0x1f20 => AttributeValue::DebugInfoRefSup(DebugInfoOffset(c.u(word)? as usize)),
        _ => return None,
    };
    Some((v, c.pos))
}

/// Fixed size the standard assigns to a form (None = variable / unknown).
pub fn model_fixed_size(form: u16, enc: Encoding) -> Option<usize> {
    let word = if enc.format == Format::Dwarf64 { 8 } else { 4 };
    Some(match form {
        0x01 => enc.address_size as usize,
        0x05 | 0x12 | 0x26 | 0x2a => 2,
        0x06 | 0x13 | 0x1c | 0x28 | 0x2c => 4,
        0x07 | 0x14 | 0x20 | 0x24 => 8,
        0x0b | 0x0c | 0x11 | 0x25 | 0x29 => 1,
        0x27 | 0x2b => 3,
        0x1e => 16,
        0x19 | 0x21 => 0,
        0x0e | 0x17 | 0x1d | 0x1f | 0x1f20 | 0x1f21 => word,
        0x10 => {
            if enc.version == 2 {
                enc.address_size as usize
            } else {
                word
            }
        }
        _ => return None,
    })
}

/// (address, length) of the bytes a reader views: the zero-copy witness.
pub trait RawView {
    fn view_of(&self) -> (usize, usize);
}
impl<'a, E: Endianity> RawView for EndianSlice<'a, E> {
    fn view_of(&self) -> (usize, usize) {
        (self.slice().as_ptr() as usize, self.len())
    }
}
impl<'a, E: Endianity, const K: usize> RawView for FixLeb<'a, E, K> {
    fn view_of(&self) -> (usize, usize) {
        (self.0.slice().as_ptr() as usize, self.0.len())
    }
}
impl<'a, E: Endianity, const K: usize> RawView for PosLeb<'a, E, K> {
    fn view_of(&self) -> (usize, usize) {
        (self.0.slice().as_ptr() as usize, self.0.len())
    }
}
fn view<R: RawView>(a: &R) -> (usize, usize) {
    a.view_of()
}

/// Structural equality with zero-copy views compared by (pointer, length).
pub fn av_same<'a, E: Endianity>(g: &AV<'a, E>, w: &AV<'a, E>) -> bool {
    match (g, w) {
        (AttributeValue::Block(a), AttributeValue::Block(b)) => view(a) == view(b),
        (AttributeValue::String(a), AttributeValue::String(b)) => view(a) == view(b),
        (AttributeValue::Exprloc(a), AttributeValue::Exprloc(b)) => view(&a.0) == view(&b.0),
        (AttributeValue::Block(_), _) | (AttributeValue::String(_), _) | (AttributeValue::Exprloc(_), _) => false,
        (_, AttributeValue::Block(_)) | (_, AttributeValue::String(_)) | (_, AttributeValue::Exprloc(_)) => false,
        (g, w) => g == w,
    }
}

/// Numeric payload of a value for the normalisation clause: (payload bits, width in bits of the *encoding*
/// it came from when known, or 0 when the payload is exact).  Views yield (pointer, len-tag).
#[derive(Clone, Copy, PartialEq, Eq, Debug)]
pub enum Payload {
    Num { bits: u128, width: u32 },
    View(usize, usize),
    Flag(bool),
}

pub fn payload<R: Reader<Offset = usize> + RawView>(v: &AttributeValue<R>) -> Payload {
    let n = |bits: u128, width: u32| Payload::Num { bits, width };
    match *v {
        AttributeValue::Addr(x) => n(x as u128, 0),
        AttributeValue::Block(ref r) => Payload::View(view(r).0, view(r).1),
        AttributeValue::Data1(x) => n(x as u128, 8),
        AttributeValue::Data2(x) => n(x as u128, 16),
        AttributeValue::Data4(x) => n(x as u128, 32),
        AttributeValue::Data8(x) => n(x as u128, 64),
        AttributeValue::Data16(x) => n(x, 128),
        AttributeValue::Sdata(x) => n(x as u64 as u128, 64),
        AttributeValue::Udata(x) => n(x as u128, 64),
        AttributeValue::Exprloc(ref e) => Payload::View(view(&e.0).0, view(&e.0).1),
        AttributeValue::Flag(b) => Payload::Flag(b),
        AttributeValue::SecOffset(o) => n(o as u128, 0),
        AttributeValue::DebugAddrBase(o) => n(o.0 as u128, 0),
        AttributeValue::DebugAddrIndex(o) => n(o.0 as u128, 0),
        AttributeValue::UnitRef(o) => n(o.0 as u128, 0),
        AttributeValue::DebugInfoRef(o) => n(o.0 as u128, 0),
        AttributeValue::DebugInfoRefSup(o) => n(o.0 as u128, 0),
        AttributeValue::DebugLineRef(o) => n(o.0 as u128, 0),
        AttributeValue::LocationListsRef(o) => n(o.0 as u128, 0),
        AttributeValue::DebugLocListsBase(o) => n(o.0 as u128, 0),
        AttributeValue::DebugLocListsIndex(o) => n(o.0 as u128, 0),
        AttributeValue::DebugMacinfoRef(o) => n(o.0 as u128, 0),
        AttributeValue::DebugMacroRef(o) => n(o.0 as u128, 0),
        AttributeValue::RangeListsRef(o) => n(o.0 as u128, 0),
        AttributeValue::DebugRngListsBase(o) => n(o.0 as u128, 0),
        AttributeValue::DebugRngListsIndex(o) => n(o.0 as u128, 0),
        AttributeValue::DebugTypesRef(o) => n(o.0 as u128, 0),
        AttributeValue::DebugStrRef(o) => n(o.0 as u128, 0),
        AttributeValue::DebugStrRefSup(o) => n(o.0 as u128, 0),
        AttributeValue::DebugStrOffsetsBase(o) => n(o.0 as u128, 0),
        AttributeValue::DebugStrOffsetsIndex(o) => n(o.0 as u128, 0),
        AttributeValue::DebugLineStrRef(o) => n(o.0 as u128, 0),
        AttributeValue::String(ref r) => Payload::View(view(r).0, view(r).1),
        AttributeValue::Encoding(x) => n(x.0 as u128, 0),
        AttributeValue::DecimalSign(x) => n(x.0 as u128, 0),
        AttributeValue::Endianity(x) => n(x.0 as u128, 0),
        AttributeValue::Accessibility(x) => n(x.0 as u128, 0),
        AttributeValue::Visibility(x) => n(x.0 as u128, 0),
        AttributeValue::Virtuality(x) => n(x.0 as u128, 0),
        AttributeValue::Language(x) => n(x.0 as u128, 0),
        AttributeValue::AddressClass(x) => n(x.0 as u128, 0),
        AttributeValue::IdentifierCase(x) => n(x.0 as u128, 0),
        AttributeValue::CallingConvention(x) => n(x.0 as u128, 0),
        AttributeValue::Inline(x) => n(x.0 as u128, 0),
        AttributeValue::Ordering(x) => n(x.0 as u128, 0),
        AttributeValue::FileIndex(x) => n(x as u128, 0),
        AttributeValue::DwoId(x) => n(x.0 as u128, 0),
        _ => n(0, 0),
    }
}

/// "Normalisation never changes the numeric payload or target": the normalised payload is the raw payload
/// itself, or its zero- or sign-extension from the raw encoding width.
pub fn payload_preserved(raw: Payload, norm: Payload) -> bool {
    match (raw, norm) {
        (Payload::View(a, b), Payload::View(c, d)) => a == c && b == d,
        (Payload::Flag(a), Payload::Flag(b)) => a == b,
        (Payload::Num { bits: r, width }, Payload::Num { bits: n, .. }) => {
            if r == n {
                return true;
            }
            if width == 0 || width >= 64 {
                return false;
            }
            // sign extension of the `width`-bit raw value to 64 bits
            let sign = (r >> (width - 1)) & 1 == 1;
            sign && n == (r | ((!0u64 as u128) & !((1u128 << width) - 1)))
        }
        _ => false,
    }
}

/// Variant identity (class) of a value, independent of the reader type.
pub fn tag<R: Reader<Offset = usize>>(v: &AttributeValue<R>) -> u8 {
    match *v {
        AttributeValue::Addr(_) => 1,
        AttributeValue::Block(_) => 2,
        AttributeValue::Data1(_) => 3,
        AttributeValue::Data2(_) => 4,
        AttributeValue::Data4(_) => 5,
        AttributeValue::Data8(_) => 6,
        AttributeValue::Data16(_) => 7,
        AttributeValue::Sdata(_) => 8,
        AttributeValue::Udata(_) => 9,
        AttributeValue::Exprloc(_) => 10,
        AttributeValue::Flag(_) => 11,
        AttributeValue::SecOffset(_) => 12,
        AttributeValue::DebugAddrBase(_) => 13,
        AttributeValue::DebugAddrIndex(_) => 14,
        AttributeValue::UnitRef(_) => 15,
        AttributeValue::DebugInfoRef(_) => 16,
        AttributeValue::DebugInfoRefSup(_) => 17,
        AttributeValue::DebugLineRef(_) => 18,
        AttributeValue::LocationListsRef(_) => 19,
        AttributeValue::DebugLocListsBase(_) => 20,
        AttributeValue::DebugLocListsIndex(_) => 21,
        AttributeValue::DebugMacinfoRef(_) => 22,
        AttributeValue::DebugMacroRef(_) => 23,
        AttributeValue::RangeListsRef(_) => 24,
        AttributeValue::DebugRngListsBase(_) => 25,
        AttributeValue::DebugRngListsIndex(_) => 26,
        AttributeValue::DebugTypesRef(_) => 27,
        AttributeValue::DebugStrRef(_) => 28,
        AttributeValue::DebugStrRefSup(_) => 29,
        AttributeValue::DebugStrOffsetsBase(_) => 30,
        AttributeValue::DebugStrOffsetsIndex(_) => 31,
        AttributeValue::DebugLineStrRef(_) => 32,
        AttributeValue::String(_) => 33,
        AttributeValue::Encoding(_) => 34,
        AttributeValue::DecimalSign(_) => 35,
        AttributeValue::Endianity(_) => 36,
        AttributeValue::Accessibility(_) => 37,
        AttributeValue::Visibility(_) => 38,
        AttributeValue::Virtuality(_) => 39,
        AttributeValue::Language(_) => 40,
        AttributeValue::AddressClass(_) => 41,
        AttributeValue::IdentifierCase(_) => 42,
        AttributeValue::CallingConvention(_) => 43,
        AttributeValue::Inline(_) => 44,
        AttributeValue::Ordering(_) => 45,
        AttributeValue::FileIndex(_) => 46,
        AttributeValue::DwoId(_) => 47,
        _ => 0,
    }
}
