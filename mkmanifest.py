#!/usr/bin/env python3
"""Writes MANIFEST.json from the per-property metadata in gen.py (single source of truth)."""
import json, os, sys
sys.path.insert(0, os.path.dirname(os.path.abspath(__file__)))
import gen

ALL = ["C%02d" % i for i in range(1, 21)]
checks, na = [], []
for pid in ALL:
    m = gen.META.get(pid)
    if m and m.get("claimed", True):
        checks.append({
            "property_id": pid,
            "quick_cmd": "./check %s --tier quick" % pid,
            "thorough_cmd": "./check %s --tier thorough" % pid,
            "evidence_file": "evidence/%s.json" % pid,
            "replay_cmd_template": "./check %s --replay {path}" % pid,
            "engine": "kani-cbmc",
            "level_claimed": {"category": "model_checking", "text": m["level_text"], "design_ref": m.get("design_ref", "DESIGN.md §4 " + pid)},
            "level_note": m["level_note"],
            "technique": m.get("technique", "bounded model checking of the compiled Rust (Kani 0.68 -> CBMC 6.11 -> CaDiCaL SAT): skeleton-fixed control, symbolic data, differential assertion against a reference model"),
        })
    else:
        na.append({"property_id": pid, "reason": gen.NA.get(pid, "check not built yet (work in progress); no claim is made")})
man = {
    "version": 1,
    "setup_cmd": "./check --setup",
    "hooks": {
        "guard": gen.HOOKS["guard"],
        "enable": gen.HOOKS["enable"],
        "baseline_off_cmd": "cd /repo && cargo test --workspace --no-fail-fast --offline",
        "source_commits": gen.HOOKS["source_commits"],
        "add_only": True,
    },
    "engines": [{"name": "kani-cbmc", "path": "/verif/check", "serves_properties": [c["property_id"] for c in checks],
                 "kind_free_text": "Python driver that regenerates skeleton harnesses, compiles /repo's working tree with cargo-kani 0.68, runs one CBMC/CaDiCaL query per harness in parallel, replays counterexamples natively (dev + release profile) before reporting"}],
    "checks": checks,
    "not_applicable": na,
    "notes": "All checks are bounded: bounds, cuts and assumptions per property are in evidence/<id>.json (coverage.bounds / outside_claim / assumptions) and DESIGN.md.",
}
json.dump(man, open(os.path.join(os.path.dirname(os.path.abspath(__file__)), "MANIFEST.json"), "w"), indent=1)
print("claimed:", [c["property_id"] for c in checks])
